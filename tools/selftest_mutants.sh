#!/bin/bash
# Applies every patch in mutants/ to a scratch worktree (outside /repo and /verif), runs the quick tier of the checks that
# are expected to catch it and writes mutants/RESULTS.md.  A mutant counts as caught when a targeted check exits 1 with a VIOLATION line.
cd "$(dirname "$0")/.."
declare -A T
T[revert_fix_01]="C01"; T[revert_fix_02]="C01 C02 C07"; T[revert_fix_03]="C01 C06 C08"; T[revert_fix_04]="C06 C08"; T[revert_fix_05]="C03 C05 C06"
T[revert_fix_06]="C09"; T[revert_fix_07]="C10"; T[revert_fix_08]="C13"; T[revert_fix_09]="C14"; T[revert_fix_10]="C18"; T[revert_fix_11]="C18"
T[revert_fix_12]="C18"; T[revert_fix_13]="C16"; T[revert_fix_14]="C16"; T[revert_fix_15]="C16"; T[revert_fix_16]="C20"; T[revert_fix_17]="C08"
T[revert_fix_18]="C06"; T[revert_fix_19]="C05"; T[revert_fix_20]="C20"; T[revert_fix_21]="C18"; T[revert_fix_22]="C14"; T[revert_fix_23]="C14"
T[revert_fix_24]="C17"; T[revert_fix_25]="C16"; T[revert_fix_26]="C13"; T[revert_fix_27]="C16"; T[revert_fix_28]="C16"
OUT=mutants/RESULTS.md
echo "| mutant | checks run | caught by | missed by |" > $OUT
echo "|---|---|---|---|" >> $OUT
jobs=0
run_one() {
  p="$1"; name=$(basename "$p" .patch)
  key=$(echo "$name" | cut -d_ -f1-3)
  if [[ "$name" == revert_fix_* ]]; then targets="${T[$key]}"; else targets=$(echo "$name" | cut -d_ -f1 | tr a-z A-Z); fi
  caught=""; missed=""
  res=$(tools/mut.sh "$p" $targets 2>&1)
  for id in $targets; do
    if echo "$res" | grep -q " $id exit=1 "; then caught="$caught $id"; else missed="$missed $id"; fi
  done
  echo "| $name | $targets |$caught |$missed |"
}
export -f run_one
for p in mutants/*.patch; do
  run_one "$p" >> $OUT.tmp.$(basename $p) &
  jobs=$((jobs+1))
  if [ $jobs -ge 6 ]; then wait; jobs=0; fi
done
wait
cat $OUT.tmp.* | sort >> $OUT; rm -f $OUT.tmp.*
echo; grep -c "^| [a-z]" $OUT; awk -F'|' 'NR>2 && $4 ~ /^ *$/ {print "NOT CAUGHT:", $2}' $OUT
