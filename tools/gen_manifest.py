#!/venv/bin/python
"""Regenerates /verif/MANIFEST.json from the check modules that exist (checks/cNN.py with a MANIFEST dict)."""
import importlib
import json
import os
import sys

VERIF = os.path.dirname(os.path.dirname(os.path.abspath(__file__)))
sys.path.insert(0, VERIF)
sys.path.insert(0, '/repo')

ALL = [f"C{n:02d}" for n in range(1, 21)]

BASELINE_CMD = (
    "cd /repo && env -u PJRPC_VERIF /venv/bin/python -m pytest -ra -q -p no:cacheprovider --timeout=900 "
    "--continue-on-collection-errors"
)


def main() -> None:
    checks = []
    not_applicable = []
    for pid in ALL:
        path = os.path.join(VERIF, 'checks', f'{pid.lower()}.py')
        if not os.path.exists(path):
            not_applicable.append(dict(property_id=pid, reason="check not built yet in this round (planned: see DESIGN.md section 6)"))
            continue
        mod = importlib.import_module(f'checks.{pid.lower()}')
        m = mod.MANIFEST
        checks.append(dict(
            property_id=pid,
            quick_cmd=f"./check {pid} --tier quick",
            thorough_cmd=f"./check {pid} --tier thorough",
            evidence_file=f"evidence/{pid}.json",
            replay_cmd_template=f"./check {pid} --replay {{path}}",
            engine="pbt",
            level_claimed=dict(category=mod.CHECK.level, text=m['level_text'], design_ref=f"DESIGN.md section 6, {pid}"),
            level_note=m['level_note'],
            technique=m['technique'],
        ))
    manifest = dict(
        version=1,
        setup_cmd=(
            "/venv/bin/pip install -q --no-index --find-links /opt/veriftools/wheels hypothesis && "
            "(/venv/bin/pip install -q --no-index --find-links /opt/veriftools/wheels --target /verif/.deps atheris "
            "|| echo 'atheris unavailable: fuzzing campaigns are skipped') && mkdir -p /verif/evidence /verif/replays"
        ),
        hooks=dict(
            guard="PJRPC_VERIF",
            enable="no source hooks: checks import /repo's working tree directly (PYTHONPATH=/repo) in a fresh interpreter; "
                   "PJRPC_VERIF=1 is exported by ./check but nothing in /repo reads it",
            baseline_off_cmd=BASELINE_CMD,
            source_commits=[],
            add_only=True,
        ),
        engines=[dict(
            name="pbt", path="pbt/", serves_properties=[c['property_id'] for c in checks],
            kind_free_text="Hypothesis-driven property-based testing over JSON case specs with explicit oracles "
                           "(reference models, round trips, differentials), exhaustive enumeration of small finite spaces, "
                           "bucketed failure collection and shrinking to replay files",
        )],
        checks=checks,
        not_applicable=not_applicable,
        notes="Every check: ./check <id> [--tier quick|thorough] [--replay file]; VERIF_SEED selects the Hypothesis seed; "
              "exit 0 held / 1 VIOLATION / 2 harness error. Known findings: known_findings.json.",
    )
    with open(os.path.join(VERIF, 'MANIFEST.json'), 'w') as f:
        json.dump(manifest, f, indent=1)
        f.write('\n')
    print(f"MANIFEST.json: {len(checks)} checks, {len(not_applicable)} not_applicable")


if __name__ == '__main__':
    main()
