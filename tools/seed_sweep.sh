#!/bin/bash
# usage: tools/seed_sweep.sh <VERIF_SEED>
# For every kept seeded change: apply it to a scratch worktree and run the quick tier of the check of the property it was written
# against (and of the checks recorded as catching it) with the given VERIF_SEED.  Prints the seeds that NO listed check catches at
# this seed value - detections that depend on the Hypothesis seed need a sturdier generator or a corpus case.
SEED="$1"
run() {
  d="$1"; sid=$(basename "$d"); prop=${sid%%-*}
  checks=$(/venv/bin/python -c "import json;m=json.load(open('$d/meta.json'));c=[x for x in m['quick_checks_that_catch_it']];print(' '.join(dict.fromkeys(['$prop']+c)))")
  W=$(mktemp -d /tmp/pjrpc-sweep.XXXXXX); rmdir "$W"
  git -C /repo worktree add --detach -q "$W" HEAD || exit 2
  git -C "$W" apply "$d/patch.diff" || { echo "$sid PATCH-FAILS"; git -C /repo worktree remove --force "$W"; return; }
  caught=""
  for id in $checks; do
    VERIF_SEED="$SEED" VERIF_EVIDENCE_DIR="$W/.ev" VERIF_REPLAY_DIR="$W/.rp" PJRPC_REPO="$W" /verif/check "$id" --tier quick >/dev/null 2>&1
    [ $? = 1 ] && caught="$caught $id"
  done
  git -C /repo worktree remove --force "$W" >/dev/null 2>&1; rm -rf "$W"
  own=no; for c in $caught; do [ "$c" = "$prop" ] && own=yes; done
  echo "$sid seed=$SEED own=$own caught:$caught (ran: $checks)"
}
export -f run; export SEED
ls -d /verif/seeded/*/ | sed 's:/$::' | xargs -P ${SWEEP_JOBS:-6} -I{} bash -c 'run "$@"' _ {}
