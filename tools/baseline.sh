#!/bin/bash
# Runs the repository's pinned baseline (guard off) and compares with BASELINE.json's stable_pass list.
# exit 0 iff every stable_pass test passes.
set -u
OUT=$(mktemp -d /tmp/pjrpc-baseline.XXXXXX)
cd /repo && env -u PJRPC_VERIF /venv/bin/python -m pytest -ra -q -p no:cacheprovider --timeout=900 --continue-on-collection-errors --junitxml=$OUT/junit.xml >$OUT/log 2>&1
/venv/bin/python - "$OUT/junit.xml" <<'PY'
import json, sys, xml.etree.ElementTree as ET
base = json.load(open('/root/.vp/BASELINE.json'))
stable = set(base['stable_pass'])
passed = set(); failed = set()
for tc in ET.parse(sys.argv[1]).getroot().iter('testcase'):
    name = f"{tc.get('classname')}::{tc.get('name')}"
    bad = any(ch.tag in ('failure', 'error', 'skipped') for ch in tc)
    (failed if bad else passed).add(name)
missing = sorted(stable - passed)
print(f"passed={len(passed)} failed={len(failed)} stable={len(stable)} stable_missing={len(missing)}")
for m in missing[:20]:
    print("  MISSING", m)
newly = sorted(passed - stable)
print(f"passing beyond baseline: {len(newly)}")
sys.exit(1 if missing else 0)
PY
rc=$?
rm -rf "$OUT"
exit $rc
