ENTRIES = [
    dict(id='KF-C07-1', property='C07', status='known', bucket='C07', match='uuid_ids',
         what="id_gen_impl=generators.uuid: every call fails with TypeError 'Object of type UUID is not JSON serializable' before anything is "
              "sent (the generator yields uuid.UUID objects, pinned by tests/client/test_generators.py::test_uuid; stringifying in the encoder "
              "alone would break id matching in strict mode)",
         witness={'client': 'sync', 'dispatcher': 'sync', 'strict': True, 'id_gen': {'kind': 'uuid'}, 'notation': 'call', 'other': 'call',
                  'plan': [{'method': 'noargs', 'args': [], 'kwargs': {}, 'kind': 'call'}], 'behaviours': {}, 'seed': 0}),
    dict(id='F2c', property='C07', status='fixed', commit='715c93a', bucket='C07/batch/all-notifications-returned-or-raised',
         what="a batch made of notifications only raised 'unexpected response' in a strict client because the server answered '[]'",
         witness={'client': 'sync', 'dispatcher': 'sync', 'strict': True, 'id_gen': {'kind': 'sequential', 'start': 1, 'step': 1}, 'notation': 'batch-add',
                  'other': 'batch-send', 'plan': [{'method': 'echo', 'args': [1], 'kwargs': {}, 'kind': 'notification'},
                                                  {'method': 'noargs', 'args': [], 'kwargs': {}, 'kind': 'notification'}], 'behaviours': {}, 'seed': 0}),
    dict(id='F6', property='C09', status='fixed', commit='7ad2f56', bucket='C09/unexpected-exception/AttributeError',
         what="notify through a client with a retry strategy raised AttributeError after delivery",
         witness={'client': 'sync', 'request': 'notification', 'placement': 'client',
                  'strategy': {'attempts': 2, 'codes': [2001], 'exceptions': ['ExcE'], 'backoff': {'kind': 'periodic', 'interval': 1.0}, 'jitter': []},
                  'outcomes': [{'kind': 'ok'}] * 4}),
    dict(id='F7', property='C10', status='fixed', commit='6838661', bucket='C10/sequential/elements-overlap',
         what="AsyncDispatcher(concurrent_batch=False) still ran the batch elements concurrently",
         witness={'concurrent': False, 'elements': [{'kind': 'call', 'method': 'ret', 'suspend': 1}, {'kind': 'call', 'method': 'ret', 'suspend': 1}],
                  'mw_suspend': None, 'eh_suspend': None, 'schedule': 'all'}),
    dict(id='F8', property='C13', status='fixed', commit='9c39acb', bucket='C13/retention/context-retained/view',
         what="class based view methods kept every request context alive (unbounded signature cache keyed by bound method)",
         witness={'kind': 'retention', 'dispatcher': 'sync', 'validator': 'base', 'flavour': 'view', 'n': 10, 'requests': ['ok']}),
    dict(id='F16', property='C08', status='fixed', commit='f1078ec', bucket='C08/send/position-not-in-call-order',
         what="a reversed response array made batch.call() / BatchResponse.result return the results in server order",
         witness={'mode': 'batch', 'client': 'sync', 'strict': True, 'calls': [{'id': 1, 'outcome': 'ok'}, {'id': 2, 'outcome': 'ok'}, {'id': 3, 'outcome': 'ok'}],
                  'notifications': 0, 'program': [['perm', [2, 1, 0]]]}),
    dict(id='F3c', property='C08', status='fixed', commit='bcb5a6f', bucket='C08/single/call/malformed-body-not-rejected',
         what="a response with id true was accepted for request id 1",
         witness={'mode': 'single', 'client': 'sync', 'strict': True, 'id': 1, 'relation': 'bool', 'shape': 'result'}),
]
ENTRIES += [
    dict(id='F17', property='C20', status='fixed', commit='1ff7b7b', bucket='C20/reply-id',
         what="the mocker answered request id 0 with the patch's own id (null)",
         witness={'target': 'sync', 'passthrough': False, 'ops': [['add', 0, 0, {'kind': 'result', 'value': 1}, False], ['call', 0, 0, [1], 0]]}),
    dict(id='F21', property='C20', status='fixed', commit='930172f', bucket='C20/passthrough',
         what="after a batch consumed an endpoint's last once-patch, later requests to that endpoint got -32601 instead of passthrough / refusal",
         witness={'target': 'sync', 'passthrough': True, 'ops': [['add', 0, 0, {'kind': 'result', 'value': None}, True],
                                                                    ['batch', 0, [[0, None], [0, None]]], ['call', 0, 0, None, 1]]}),
]
_T18 = lambda doc: {'text': {'doc': doc, 'ascii': True, 'indent': 0, 'pad': '', 'huge': None, 'mangle': None}}  # noqa: E731
_CALL18 = {'jsonrpc': '2.0', 'id': 1, 'method': 'echo', 'params': [1]}
_B18 = {'status': 'default', 'endpoint': 'base', 'behaviours': {}, 'base': '/api'}
ENTRIES += [
    dict(id='F10', property='C18', status='fixed', commit='d1d6e4b', bucket='C18/flask/unsupported-media-type-not-refused',
         what="flask refused application/json-rpc and application/jsonrequest with 415 and accepted application/vnd.api+json",
         witness={**_B18, 'media': 'application/vnd.api+json', 'body': _T18(_CALL18)}),
    dict(id='F10b', property='C18', status='fixed', commit='d1d6e4b', bucket='C18/flask/status',
         what="flask refused application/json-rpc with 415", witness={**_B18, 'media': 'application/json-rpc', 'body': _T18(_CALL18)}),
    dict(id='F11', property='C18', status='fixed', commit='09a0d84', bucket='C18/werkzeug/request-raised',
         what="werkzeug raised UnsupportedMediaType out of the WSGI callable instead of replying 415; refused a charset parameter",
         witness={**_B18, 'media': 'text/plain', 'body': _T18(_CALL18)}),
    dict(id='F11b', property='C18', status='fixed', commit='09a0d84', bucket='C18/werkzeug/status',
         what="werkzeug refused 'application/json; charset=utf-8'", witness={**_B18, 'media': 'application/json; charset=utf-8', 'body': _T18(_CALL18)}),
    dict(id='F12', property='C18', status='fixed', commit='05ff761', bucket='C18/flask/undecodable-body-not-refused',
         what="flask / werkzeug dispatched a body that is not valid UTF-8 (decoded with errors='replace')",
         witness={**_B18, 'media': 'application/json', 'body': {'bytes': 'latin1-call'}}),
    dict(id='F22', property='C18', status='fixed', commit='80b20dc', bucket='C18/flask/status',
         what="flask: a request whose parameters do not bind ended in HTTP 500 (ValidationError not serialisable through flask.json.dumps) instead of a -32602 response",
         witness={**_B18, 'media': 'application/json', 'body': _T18({'jsonrpc': '2.0', 'id': 1, 'method': 'echo'})}),
]
ENTRIES += [
    dict(id='F9', property='C14', status='fixed', commit='e81cb05', bucket='C14/conforming-call-refused/pydantic',
         what="every call through PydanticValidator was answered -32603 under pydantic >= 2.10 (create_model(model_config=...))",
         witness={'dispatcher': 'sync', 'validator': 'pydantic', 'flavour': 'func', 'ctx': False, 'excluded': False, 'coerce': True, 'top': {},
                  'params': [{'name': 'p0', 'kind': 'PK', 'type': 'int'}], 'args': {'value': [1]}}),
    dict(id='F18', property='C14', status='fixed', commit='8e87b1f', bucket='C14/dispatch-raised/TypeError',
         what="a model validator raising ValueError made dispatch raise TypeError (error context not JSON-serializable)",
         witness={'dispatcher': 'sync', 'validator': 'pydantic', 'flavour': 'func', 'ctx': False, 'excluded': False, 'coerce': True, 'top': {},
                  'params': [{'name': 'p0', 'kind': 'PK', 'type': 'vmodel'}], 'args': {'value': {'p0': {'n': -1}}}}),
    dict(id='F23', property='C14', status='fixed', commit='085c188', bucket='C14/conforming-call-refused/pydantic',
         what="PydanticValidator answered -32603 for methods with an unhashable default (List[int] = [])",
         witness={'dispatcher': 'sync', 'validator': 'pydantic', 'flavour': 'func', 'ctx': False, 'excluded': False, 'coerce': True, 'top': {},
                  'params': [{'name': 'p0', 'kind': 'PK', 'type': 'list_int', 'default': {'value': []}}], 'args': {'value': [['1', 2]]}}),
]
ENTRIES += [
    dict(id='F24', property='C17', status='fixed', commit='e3f59ad', bucket='C17/openapi/self-documented',
         what="view methods: the class function's first parameter ('self') was documented as a required parameter in OpenAPI and OpenRPC",
         witness={'method': {'params': [{'name': 'p0', 'kind': 'PK'}], 'flavour': 'view', 'excluded': False, 'view_ctx': True}}),
]
_A16 = {'errors': 'none', 'error_names': ['Custom2001'], 'tags': [], 'examples': 0, 'summary': False, 'description': False, 'deprecated': None,
        'servers': False, 'security': False, 'external_docs': False, 'params_schema': False, 'result_schema': False, 'prefix': None}
_M16 = {'params': [['int', False]], 'ret': 'int', 'doc': 'full', 'ctx': False, 'flavour': 'func', 'custom_name': False, 'annotated': False, 'annot': _A16}
_O16 = {'servers': False, 'tags': False, 'security': False, 'external_docs': False}
ENTRIES += [
    dict(id='KF-C16-1', property='C16', status='known', bucket='C16/meta-schema/openapi-3.0.3', match='openapi30',
         what="OpenAPI(openapi='3.0.x') documents that carry any JSON schema (pydantic / docstring extractor, or explicit params / result schema "
              "annotations) fail the OpenAPI 3.0 meta-schema: the schemas use 2020-12 constructs ('const', 'examples', anyOf-null, $defs-style "
              "unions) that 3.0 Schema Objects do not allow; a repair needs a schema down-converter",
         witness={'kind': 'openapi-3.0.3', 'extractors': ['pydantic'], 'methods': [_M16], 'endpoints': 1, 'generations': 1, 'spec_opts': _O16, 'path': '/api'}),
    dict(id='KF-C16-3', property='C16', status='known', bucket='C16/meta-schema', match='empty_path',
         what="OpenAPI.schema(path='') (what the aiohttp / flask integrations pass when the JSON-RPC endpoint is mounted at the root with an "
              "empty base path) emits path keys such as '#method' that do not start with '/', which the OpenAPI meta-schemas forbid; "
              "normalising the key would change the documents every default-configured deployment publishes, so it is recorded, not repaired",
         witness={'kind': 'openapi-3.1.0', 'extractors': ['base'], 'methods': [_M16], 'endpoints': 1, 'generations': 1, 'spec_opts': _O16, 'path': ''}),
    dict(id='F25', property='C16', status='fixed', commit='3c07a64', bucket='C16/not-json-encodable/TypeError',
         what="OpenRPC + DocstringSchemaExtractor: a ':rtype:' without description put the UNSET sentinel into the document (not JSON-encodable)",
         witness={'kind': 'openrpc', 'extractors': ['docstring'], 'methods': [{**_M16, 'doc': 'bare-types'}], 'endpoints': 1, 'generations': 1, 'spec_opts': _O16, 'path': '/api'}),
    dict(id='F13', property='C16', status='fixed', commit='27e8030', bucket='C16/purity/annotations-or-user-objects-modified',
         what="an errors=[...] list shared by two methods grew on every generation and method 2 documented method 1's docstring errors",
         witness={'kind': 'openapi-3.1.0', 'extractors': ['pydantic', 'docstring'], 'endpoints': 1, 'generations': 2, 'spec_opts': _O16, 'path': '/api',
                  'methods': [{**_M16, 'doc': 'raises', 'annotated': True, 'annot': {**_A16, 'errors': 'shared'}},
                              {**_M16, 'doc': 'none', 'annotated': True, 'annot': {**_A16, 'errors': 'shared'}}]}),
    dict(id='F14', property='C16', status='fixed', commit='90f6205', bucket='C16/isolation',
         what="a method's component_name_prefix was applied to every method documented after it",
         witness={'kind': 'openapi-3.1.0', 'extractors': ['pydantic'], 'endpoints': 1, 'generations': 1, 'spec_opts': _O16, 'path': '/api',
                  'methods': [{**_M16, 'params': [['ModelA', False]], 'annotated': True, 'annot': {**_A16, 'prefix': 'P1'}}, {**_M16, 'params': [['ModelB', False]]}]}),
    dict(id='F15', property='C16', status='fixed', commit='fb2d3f6', bucket='C16/generation-failed/KeyError',
         what="OpenRPC with the default extractor raised KeyError: 'properties'",
         witness={'kind': 'openrpc', 'extractors': ['base'], 'methods': [_M16], 'endpoints': 1, 'generations': 1, 'spec_opts': _O16, 'path': '/api'}),
]
ENTRIES += [
    dict(id='F26', property='C13', status='fixed', commit='77d99df', bucket='C13/history/probe-response-depends-on-history',
         what="PydanticValidator.build_validation_schema was memoised by inspect.Signature, and signatures whose defaults compare equal (1 == True == 1.0) "
              "are equal: with coercion on, def b(x=True) answered 1 once def a(x=1) had been served through the same validator",
         witness={'kind': 'vhistory', 'dispatcher': 'sync', 'coerce': True, 'history': [['pick.int', []]], 'probe': ['pick.bool', []]}),
]
ENTRIES += [
    dict(id='F27', property='C16', status='fixed', commit='d763ac8', bucket='C16/isolation',
         what="PydanticSchemaExtractor built model names from the dotted method name; pydantic shortens such component names to the part after the last dot, so "
              "'v1.add' and 'v2.add' shared their request / parameters / result components and one method was documented with the other's parameters",
         witness={'kind': 'openapi-3.1.0', 'extractors': ['pydantic'], 'endpoints': 1, 'generations': 1, 'spec_opts': _O16, 'path': '/api', 'naming': 'dotted-twins',
                  'methods': [{**_M16, 'params': [['int', False], ['int', False]]}, {**_M16, 'params': [['str', False]], 'ret': 'str'}]}),
]
ENTRIES += [
    dict(id='F28', property='C16', status='fixed', commit='1f1314a', bucket='C16/meta-schema/openrpc',
         what="DocstringSchemaExtractor wrote \"type\": null into the schema of a ':param name:' / ':returns:' field documented without a type (OpenRPC documents failed "
              "their meta-schema; OpenAPI documents carried the null silently)",
         witness={'kind': 'openrpc', 'extractors': ['docstring'], 'methods': [{**_M16, 'doc': 'fields-only'}], 'endpoints': 1, 'generations': 1, 'spec_opts': _O16, 'path': '/api'}),
]
