#!/bin/bash
# runs every registered check's quick (default) or thorough tier on /repo; prints one line per check
TIER="${1:-quick}"
cd /verif
for id in $(/venv/bin/python -c "import json;print(' '.join(c['property_id'] for c in json.load(open('MANIFEST.json'))['checks']))"); do
  s=$(date +%s)
  out=$(./check $id --tier $TIER 2>&1); rc=$?
  echo "$id exit=$rc $(( $(date +%s) - s ))s $(echo "$out" | grep -E '^(VIOLATION|HARNESS|KNOWN)' | cut -c1-150 | tr '\n' ' ')"
done
