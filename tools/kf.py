#!/venv/bin/python
"""Maintains known_findings.json from the table below (run after editing)."""
import json, os
VERIF = os.path.dirname(os.path.dirname(os.path.abspath(__file__)))

def T(doc, **kw):
    return {'doc': doc, 'ascii': True, 'indent': 0, 'pad': '', 'huge': None, 'mangle': None, **kw}

PLACEHOLDER = 987650123456789
ENTRIES = [
    # ---- known (not repaired) --------------------------------------------------------------------
    dict(id='KF-C04-1', property='C04', status='known', bucket='C04/bind', match='variadic_or_posonly',
         what="variadic (*args / **kw) and positional-only parameters are passed by name: def meth(p0, *args) called with [1, 2, 3] "
              "is answered -32000 instead of running meth(1, 2, 3) (and **kw receives {'kw': {...}}); a correct repair fails the "
              "unedited integration tests which assert mock.assert_called_once_with(args=params)",
         witness={'dispatcher': 'sync', 'method': {'name': 'meth', 'params': [{'name': 'p0', 'kind': 'PK'}, {'name': 'args', 'kind': 'VP'}],
                  'flavour': 'func', 'ctx': 'none'}, 'params': {'value': [1, 2, 3]}, 'id': 1, 'behaviour': {'kind': 'echo'}}),
    # ---- fixed (suppress nothing; witnesses join the replay tier) -----------------------------------
    dict(id='F1', property='C01', status='fixed', commit='538d4cb', bucket='C01/dispatch-raised/ValueError',
         what="params [<4301-digit integer literal>] made dispatch raise ValueError instead of answering -32700",
         witness={'dispatcher': 'sync', 'max_batch_size': None, 'behaviours': {},
                  'text': T({'jsonrpc': '2.0', 'id': 1, 'method': 'echo', 'params': [PLACEHOLDER]}, huge=4301)}),
    dict(id='F2', property='C01', status='fixed', commit='715c93a', bucket='C01/not-a-response-document/empty-array',
         what="a batch of two notifications was answered with '[]'",
         witness={'dispatcher': 'async', 'max_batch_size': None, 'behaviours': {},
                  'text': T([{'jsonrpc': '2.0', 'method': 'noargs'}, {'jsonrpc': '2.0', 'method': 'noargs'}])}),
    dict(id='F2b', property='C02', status='fixed', commit='715c93a', bucket='C02/response/nothing-vs-response',
         what="a batch of notifications only was answered with '[]' instead of nothing",
         witness={'dispatcher': 'sync', 'max_batch_size': None, 'behaviours': {},
                  'text': T([{'jsonrpc': '2.0', 'method': 'noargs'}, {'jsonrpc': '2.0', 'method': 'boom'}])}),
    dict(id='F3', property='C01', status='fixed', commit='bcb5a6f', bucket='C01/not-a-response-document/id-bad-type',
         what="request id true was accepted and echoed back as a boolean id",
         witness={'dispatcher': 'sync', 'max_batch_size': None, 'behaviours': {}, 'text': T({'jsonrpc': '2.0', 'id': True, 'method': 'noargs'})}),
    dict(id='F3b', property='C06', status='fixed', commit='bcb5a6f', bucket='C06/error/accepted-invalid/code-not-integer',
         what="error code true was accepted by JsonRpcError.from_json", witness={'kind': 'error', 'value': {'code': True, 'message': 'm'}}),
    dict(id='F4', property='C06', status='fixed', commit='8360735', bucket='C06/response/wrong-exception/AssertionError',
         what="a response with an error and a falsy result raised AssertionError instead of DeserializationError",
         witness={'kind': 'response', 'value': {'jsonrpc': '2.0', 'id': 1, 'result': 0, 'error': {'code': 1, 'message': 'm'}}}),
    dict(id='F5', property='C06', status='fixed', commit='accbe18', bucket='C06/error/wrong-exception/AssertionError',
         what="error objects with code 0 or message '' raised AssertionError on deserialisation",
         witness={'kind': 'error', 'value': {'code': 0, 'message': ''}}),
    dict(id='F5b', property='C03', status='fixed', commit='accbe18', bucket='C03/response/code/0',
         what="a method raising JsonRpcError(code=0) was answered -32000 (AssertionError inside the constructor)",
         witness={'dispatcher': 'sync', 'max_batch_size': None,
                  'behaviours': {'rpc_err': {'kind': 'raise_rpc', 'error': {'cls': 'JsonRpcError', 'code': 0, 'message': 'm', 'data': {'absent': True}}}},
                  'text': T({'jsonrpc': '2.0', 'id': 1, 'method': 'rpc_err'})}),
    dict(id='F5c', property='C05', status='fixed', commit='accbe18', bucket='C05/error',
         what="errors with code 0 / empty message could not be constructed or round-tripped",
         witness={'kind': 'error', 'error': {'cls': 'JsonRpcError', 'code': 0, 'message': '', 'data': {'absent': True}}, 'error_cls': 'JsonRpcError'}),
    dict(id='F19', property='C06', status='fixed', commit='ed3c505', bucket='C06/batch_response/accepted-invalid/both-result-and-error',
         what="BatchResponse.from_json accepted a batch-level error object that also carried a result",
         witness={'kind': 'batch_response', 'value': {'jsonrpc': '2.0', 'id': None, 'result': 0, 'error': {'code': -32600, 'message': 'x'}}}),
    dict(id='F20', property='C05', status='fixed', commit='47474f2', bucket='C05/batch_response/error-class',
         what="errors of batch response elements ignored the supplied error_cls",
         witness={'kind': 'batch_response', 'responses': [{'id': 1, 'error': {'cls': 'JsonRpcError', 'code': 12345, 'message': 'm', 'data': {'absent': True}}}], 'error_cls': 'PlainBase'}),
]

import importlib.util
extra = os.path.join(VERIF, 'tools', 'kf_more.py')
if os.path.exists(extra):
    spec = importlib.util.spec_from_file_location('kf_more', extra)
    mod = importlib.util.module_from_spec(spec); spec.loader.exec_module(mod)
    ENTRIES += mod.ENTRIES

for e in ENTRIES:
    if e['status'] == 'fixed':
        e['record'] = f"fixed: property={e['property']} {e['commit']} {e['what']}"
    else:
        e['record'] = f"known: property={e['property']} {e['id']} {e['what']}"

with open(os.path.join(VERIF, 'known_findings.json'), 'w') as f:
    json.dump(ENTRIES, f, indent=1)
    f.write('\n')
print(len(ENTRIES), 'entries;', sum(e['status'] == 'known' for e in ENTRIES), 'known')
