#!/bin/bash
# usage: tools/seedcheck.sh <dir with patch.diff + demo.py [+ notes.md]> <seed-id> <property> [<more check ids>...]
# Confirms a seeded change independently (applies, demo passes on clean tree / fails with the change, pinned tests still pass),
# runs the quick tier of the given checks against it, and stores it as /verif/seeded/<seed-id>/ with meta.json.
set -u
ROOT="$(cd "$(dirname "$0")/.." && pwd)"
SRC="$(realpath "$1")"; SID="$2"; PROP="$3"; shift 3; CHECKS="$PROP $*"
W=$(mktemp -d /tmp/pjrpc-seedchk.XXXXXX); rmdir "$W"
for try in 1 2 3 4 5; do git -C /repo worktree add --detach -q "$W" HEAD 2>/dev/null && break; sleep $((try * 2)); done   # other runs may hold the worktree lock
[ -d "$W" ] || exit 2
trap 'git -C /repo worktree remove --force "$W" >/dev/null 2>&1; rm -rf "$W"' EXIT
cp "$SRC/demo.py" "$W/.seed_demo.py"; DEMO=.seed_demo.py
(cd "$W" && PYTHONPATH="$W" timeout 300 /venv/bin/python $DEMO >/dev/null 2>&1); clean_rc=$?
if [ $clean_rc != 0 ]; then
  # some demos locate repository files relative to their own path (<worktree>/.seed/<id>/demo.py): retry from that depth
  mkdir -p "$W/.seed/case"; cp "$SRC/demo.py" "$W/.seed/case/demo.py"; DEMO=.seed/case/demo.py
  (cd "$W" && PYTHONPATH="$W" timeout 300 /venv/bin/python $DEMO >/dev/null 2>&1); clean_rc=$?
fi
if ! git -C "$W" apply "$SRC/patch.diff"; then echo "$SID: PATCH DOES NOT APPLY"; exit 2; fi
(cd "$W" && PYTHONPATH="$W" timeout 300 /venv/bin/python $DEMO >/dev/null 2>&1); mut_rc=$?
base=$(/tmp/seedtools/run_baseline.sh "$W" | head -1)
caught=""; missed=""
for id in $CHECKS; do
  out=$(VERIF_EVIDENCE_DIR="$W/.verif-evidence" VERIF_REPLAY_DIR="$W/.verif-replays" PJRPC_REPO="$W" "$ROOT/check" "$id" --tier quick 2>&1); rc=$?
  if [ $rc = 1 ]; then caught="$caught $id"; bucket=$(echo "$out" | grep -m1 '  bucket' | cut -c1-200); else missed="$missed $id($rc)"; fi
done
echo "$SID: demo clean=$clean_rc mutated=$mut_rc | $base | caught:$caught | not caught:$missed"
ok=1; [ $clean_rc = 0 ] || ok=0; [ $mut_rc != 0 ] || ok=0; echo "$base" | grep -q "BROKEN: 0" || ok=0
if [ $ok = 1 ]; then
  D=/verif/seeded/$SID; mkdir -p $D
  if [ "$(realpath "$SRC")" != "$(realpath "$D")" ]; then cp "$SRC/patch.diff" "$SRC/demo.py" $D/; [ -f "$SRC/notes.md" ] && cp "$SRC/notes.md" $D/; fi
  /venv/bin/python - "$D" "$SID" "$PROP" "$caught" "$missed" "$base" <<'PY'
import json, sys, os
d, sid, prop, caught, missed, base = sys.argv[1:7]
notes = open(os.path.join(d, 'notes.md')).read() if os.path.exists(os.path.join(d, 'notes.md')) else ''
meta = dict(
    id=sid, breaks_property=prop,
    needs_to_manifest=notes[:1500],
    confirmed=dict(demo_on_clean_tree='exit 0', demo_with_change='non-zero exit', pinned_tests_with_change=base.strip()),
    commands=["git -C <scratch worktree> apply patch.diff", "PYTHONPATH=<worktree> /venv/bin/python demo.py (clean tree, then with the change)",
              "/tmp/seedtools/run_baseline.sh <worktree> (the repository's pinned tests)",
              "PJRPC_REPO=<worktree> /verif/check <id> --tier quick"],
    quick_checks_that_catch_it=caught.split(), quick_checks_run_that_do_not=missed.split(),
    source="written by an independent sub-agent that saw only the property text and its own scratch worktree",
)
json.dump(meta, open(os.path.join(d, 'meta.json'), 'w'), indent=1)
PY
else
  echo "$SID: NOT KEPT (confirmation failed)"
fi
