#!/bin/bash
# usage: tools/mut.sh <patch-file> <check-id> [<check-id> ...]
# Applies a patch to a scratch worktree of /repo (outside /repo and /verif), runs the quick checks against it
# (PJRPC_REPO points the harness at the copy) and removes the worktree.  Prints one line per check.
set -u
ROOT="$(cd "$(dirname "$0")/.." && pwd)"
PATCH="$(realpath "$1")"; shift
W=$(mktemp -d /tmp/pjrpc-mut.XXXXXX)
rmdir "$W"
for try in 1 2 3 4 5; do git -C /repo worktree add --detach -q "$W" HEAD 2>/dev/null && break; sleep $((try * 2)); done   # other runs may hold the worktree lock
[ -d "$W" ] || exit 2
trap 'git -C /repo worktree remove --force "$W" >/dev/null 2>&1; rm -rf "$W"' EXIT
if ! git -C "$W" apply "$PATCH"; then echo "PATCH DOES NOT APPLY: $PATCH"; exit 2; fi
for id in "$@"; do
  out=$(VERIF_EVIDENCE_DIR="$W/.verif-evidence" VERIF_REPLAY_DIR="$W/.verif-replays" PJRPC_REPO="$W" VERIF_BUDGET_S="${VERIF_BUDGET_S:-240}" "$ROOT/check" "$id" --tier quick 2>&1)
  rc=$?
  echo "$(basename "$PATCH") $id exit=$rc $(echo "$out" | grep -c '^VIOLATION') violation(s): $(echo "$out" | grep -m2 '  bucket' | cut -c1-220)"
  [ "$rc" = 2 ] && echo "$out" | tail -5
done
