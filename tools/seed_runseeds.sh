#!/bin/bash
# args: list of "dir:sid:checks..."
run() { IFS=: read -r d sid checks <<< "$1"; /verif/tools/seedcheck.sh "$d" "$sid" $checks 2>&1 | tail -2; }
export -f run
printf '%s\n' "$@" | xargs -P 5 -I{} bash -c 'run "$@"' _ {}
