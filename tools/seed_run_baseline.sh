#!/bin/bash
# usage: run_baseline.sh <worktree>   -> runs the repository's test suite in that worktree and reports whether the pinned passing tests still pass
set -u
W="$(realpath "$1")"
OUT=$(mktemp -d /tmp/seed-baseline.XXXXXX)
cd "$W" && PYTHONPATH="$W" /venv/bin/python -m pytest -ra -q -p no:cacheprovider --timeout=900 --continue-on-collection-errors --junitxml=$OUT/junit.xml >$OUT/log 2>&1
/venv/bin/python - "$OUT/junit.xml" <<'PY'
import json, sys, xml.etree.ElementTree as ET
base = json.load(open('/root/.vp/BASELINE.json'))
stable = set(base['stable_pass'])
passed = set()
for tc in ET.parse(sys.argv[1]).getroot().iter('testcase'):
    name = f"{tc.get('classname')}::{tc.get('name')}"
    if not any(ch.tag in ('failure', 'error', 'skipped') for ch in tc):
        passed.add(name)
missing = sorted(stable - passed)
print(f"pinned tests: {len(stable)}; still passing: {len(stable) - len(missing)}; BROKEN: {len(missing)}")
for m in missing[:20]:
    print("  BROKEN", m)
sys.exit(1 if missing else 0)
PY
rc=$?
rm -rf "$OUT"
exit $rc
