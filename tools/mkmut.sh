#!/bin/bash
# usage: tools/mkmut.sh <name> <file-relative-to-repo> <python-expr-on-source-s>   -> mutants/<name>.patch
# the python snippet receives the file text in `s` and must assign the mutated text to `s`
set -e
NAME="$1"; FILE="$2"; CODE="$3"
W=$(mktemp -d /tmp/pjrpc-mk.XXXXXX); rmdir "$W"
git -C /repo worktree add --detach -q "$W" HEAD
trap 'git -C /repo worktree remove --force "$W" >/dev/null 2>&1; rm -rf "$W"' EXIT
/venv/bin/python - "$W/$FILE" <<PY
import sys
p=sys.argv[1]
s=open(p).read()
orig=s
$CODE
assert s!=orig, "mutation did not change the file"
open(p,'w').write(s)
PY
/venv/bin/python -m py_compile "$W/$FILE"
git -C "$W" diff > /verif/mutants/$NAME.patch
echo "wrote mutants/$NAME.patch ($(wc -l < /verif/mutants/$NAME.patch) lines)"
