"""
Middlewares and error handlers built from JSON specs (sync and async), their event log, and the reference model
of the stack semantics stated in C12.

middleware spec : {'kind': 'pass' | 'short' | 'answer-all' | 'swallow' | 'rewrite-request' | 'rewrite-response', 'method'?, 'params'?}
                  short: answers calls itself, lets notifications end unanswered; answer-all: answers every element itself, notifications
                  too (an access-control middleware); swallow: returns "no response" for every element, calls too
handler spec    : {'kind': 'identity' | 'annotate' | 'replace' | 'mutate'}  (mutate: changes the code of the RECEIVED error object in place
                  and returns that same object)  or  {'kind': 'reuse', 'of': j} - the SAME callable as the j-th handler
                  built so far (an audit hook registered under several keys / twice in one list)
handler table   : {'generic': [handler...], 'codes': [[code, [handler...]], ...]}
"""

import copy
from typing import Any, Dict, List, Optional, Tuple

from pbt import refserver as ref
from pbt import wellformed as wf

REPLACE_BASE = 9000


# ---- live objects -------------------------------------------------------------------------------


class Events:
    def __init__(self) -> None:
        self.log: List[List[Any]] = []
        self.sentinel: Any = None

    def ctx(self, context: Any) -> str:
        return 'sentinel' if context is self.sentinel else f'other:{context!r}'[:60]


def _req_view(request: Any) -> List[Any]:
    p = copy.deepcopy(request.params)      # a snapshot: the method may consume its arguments later
    return [request.method, request.id, list(p) if isinstance(p, tuple) else p]


def build_middlewares(specs: List[Dict[str, Any]], ev: Events, is_async: bool, point: Any = None) -> List[Any]:
    import pjrpc
    from pjrpc.common import UNSET
    out = []
    for idx, ms in enumerate(specs):
        kind = ms['kind']

        def before(request, context, idx=idx):
            ev.log.append(['mw', idx, 'enter'] + _req_view(request) + [ev.ctx(context)])

        def short(request, idx=idx, kind=kind):
            if kind == 'swallow' or (kind == 'short' and request.id is None):
                return UNSET
            return pjrpc.Response(id=request.id, result={'short': idx})

        def rewritten(request, ms=ms):
            return pjrpc.Request(method=ms['method'], params=copy.deepcopy(ms['params']), id=request.id)

        def wrap(resp, idx=idx):
            if isinstance(resp, pjrpc.Response) and resp.is_success:
                return pjrpc.Response(id=resp.id, result={'wrapped_by': idx, 'inner': resp.result})
            return resp

        npoints = ms.get('suspend', 0)
        if is_async:
            # request and context are passed positionally (their parameter names are the application's own); the next handler arrives as `handler=`
            async def mw(rq, cx, handler, kind=kind, idx=idx, npoints=npoints, before=before, short=short, rewritten=rewritten, wrap=wrap):
                before(rq, cx)
                for i in range(npoints):
                    await point(f"mw{idx}#{i}")
                if kind in ('short', 'answer-all', 'swallow'):
                    return short(rq)
                if kind == 'rewrite-request':
                    return await handler(rewritten(rq), cx)
                resp = await handler(rq, cx)
                return wrap(resp) if kind == 'rewrite-response' else resp
        else:
            def mw(rq, cx, handler, kind=kind, before=before, short=short, rewritten=rewritten, wrap=wrap):
                before(rq, cx)
                if kind in ('short', 'answer-all', 'swallow'):
                    return short(rq)
                if kind == 'rewrite-request':
                    return handler(rewritten(rq), cx)
                resp = handler(rq, cx)
                return wrap(resp) if kind == 'rewrite-response' else resp
        out.append(mw)
    return out


def build_handlers(table: Optional[Dict[str, Any]], ev: Events, is_async: bool, point: Any = None, observe_cause: bool = False) -> Dict[Any, List[Any]]:
    import pjrpc
    if not table:
        return {}
    out: Dict[Any, List[Any]] = {}
    uid = [0]
    made: List[Any] = []

    def make(key: Any, hs: Dict[str, Any]) -> Any:
        if hs['kind'] == 'reuse' and made:
            return made[hs['of'] % len(made)]
        h = make_new(key, hs if hs['kind'] != 'reuse' else {'kind': 'identity'})
        made.append(h)
        return h

    def make_new(key: Any, hs: Dict[str, Any]) -> Any:
        n = uid[0]
        uid[0] += 1
        kind = hs['kind']
        npoints = hs.get('suspend', 0)

        def apply(request, context, error):
            ev.log.append(['eh', n, key, error.code, request.method, request.id, ev.ctx(context)])
            if observe_cause:
                # what a handler that maps internal failures to application errors looks at (differential checks only: no model predicts it)
                cause = error.__cause__
                if isinstance(cause, RuntimeError) and isinstance(cause.__cause__, (StopIteration, StopAsyncIteration)):
                    # PEP 479: python itself turns a StopIteration leaving a coroutine into RuntimeError(...) from it - a difference
                    # between plain functions and coroutines made by the language, not by the dispatcher halves
                    cause = cause.__cause__
                ev.log[-1].append(['cause', type(cause).__name__, type(error).__name__])
            if kind == 'identity':
                return error
            if kind == 'annotate':
                return pjrpc.exc.JsonRpcError(code=error.code, message=f"annot{n}", data={'annot': n})
            if kind == 'mutate':
                error.code = REPLACE_BASE + 50 + n
                return error
            return pjrpc.exc.JsonRpcError(code=REPLACE_BASE + n, message='replaced', data=error.code)

        if is_async:
            async def h(rq, cx, err):
                for i in range(npoints):
                    await point(f"eh{n}#{i}")
                return apply(rq, cx, err)
        else:
            def h(rq, cx, err):
                return apply(rq, cx, err)
        return h

    if table.get('generic'):
        out[None] = [make(None, hs) for hs in table['generic']]
    for code, hss in table.get('codes', []):
        if hss:
            out[code] = [make(code, hs) for hs in hss]
    if table.get('key_order') == 'codes-first' and None in out:
        # the application wrote its table as {code: [...], None: [...]}: the order of the KEYS means nothing
        generic = out.pop(None)
        out[None] = generic
    return out


# ---- reference model ----------------------------------------------------------------------------


def _model_handlers(table: Optional[Dict[str, Any]]) -> Dict[Any, List[Tuple[int, str, Any]]]:
    """mirror of build_handlers' numbering: (number, kind, key it was first built for)"""
    out: Dict[Any, List[Tuple[int, str, Any]]] = {}
    made: List[Tuple[int, str, Any]] = []
    if not table:
        return out

    def make(key: Any, hs: Dict[str, Any]) -> Tuple[int, str, Any]:
        if hs['kind'] == 'reuse' and made:
            return made[hs['of'] % len(made)]
        h = (len(made), hs['kind'] if hs['kind'] != 'reuse' else 'identity', key)
        made.append(h)
        return h

    if table.get('generic'):
        out[None] = [make(None, hs) for hs in table['generic']]
    for code, hss in table.get('codes', []):
        if hss:
            out[code] = [make(code, hs) for hs in hss]
    return out


def expect_stack(text: str, registry: List[Dict[str, Any]], behaviours: Dict[str, Any], mws: List[Dict[str, Any]],
                 table: Optional[Dict[str, Any]], max_batch_size: Optional[int] = None):
    """returns (Expectation-like doc, executions, events, classes)"""
    base = ref.expect(text, registry, behaviours, max_batch_size)
    if not base.elements:      # rejected before dispatch (or not JSON): nothing runs
        return base.doc, [], [], [base.klass]
    handlers = _model_handlers(table)
    events: List[List[Any]] = []
    executions: List[Dict[str, Any]] = []
    classes = [base.klass]
    parsed = base.parsed if isinstance(base.parsed, list) else [base.parsed]

    def core(req: Dict[str, Any]) -> Optional[Dict[str, Any]]:
        el = ref.serve_element(req, registry, behaviours)
        if el.execution is not None:
            executions.append(el.execution)
        classes.append(el.klass)
        if el.outcome == 'result':
            return None if el.id is None else {'id': el.id, 'result': el.payload}
        if el.outcome == 'app-error':
            err = dict(el.payload)
            lib = False
        else:
            err = {'code': el.payload}
            lib = True
        raised_code = err['code']
        chain = list(handlers.get(None, [])) + list(handlers.get(raised_code, []))
        for n, kind, key in chain:
            events.append(['eh', n, key, err['code'], req['method'], req.get('id'), 'sentinel'])
            if kind == 'annotate':
                err, lib = {'code': err['code'], 'message': f"annot{n}", 'data': {'annot': n}}, False
            elif kind == 'replace':
                err, lib = {'code': REPLACE_BASE + n, 'message': 'replaced', 'data': err['code']}, False
            elif kind == 'mutate':
                err = {**err, 'code': REPLACE_BASE + 50 + n}      # same object, same message / data; the per-code handlers were chosen by the RAISED code
        if chain:
            classes.append('handlers/ran')
        if el.id is None:
            return None
        return {'id': el.id, 'error': err, 'lib': lib}

    def layer(i: int, req: Dict[str, Any]) -> Optional[Dict[str, Any]]:
        if i == len(mws):
            return core(req)
        ms = mws[i]
        params = req.get('params', [])
        events.append(['mw', i, 'enter', req['method'], req.get('id'), params, 'sentinel'])
        kind = ms['kind']
        if kind == 'swallow':
            classes.append('mw/swallowed-call' if req.get('id') is not None else 'mw/short-circuited')
            return None
        if kind == 'answer-all':
            classes.append('mw/answered-notification' if req.get('id') is None else 'mw/short-circuited')
            return {'id': req.get('id'), 'result': {'short': i}}
        if kind == 'short':
            classes.append('mw/short-circuited')
            return None if req.get('id') is None else {'id': req['id'], 'result': {'short': i}}
        if kind == 'rewrite-request':
            new = {'jsonrpc': '2.0', 'method': ms['method'], 'params': copy.deepcopy(ms['params'])}
            if req.get('id') is not None:
                new['id'] = req['id']
            return layer(i + 1, new)
        resp = layer(i + 1, req)
        if kind == 'rewrite-response' and resp is not None and 'result' in resp:
            return {'id': resp['id'], 'result': {'wrapped_by': i, 'inner': resp['result']}}
        return resp

    responses = []
    for el in parsed:
        r = layer(0, el)
        if r is not None:
            responses.append(r)
    if isinstance(base.parsed, list):
        doc: Any = responses if responses else ref.NOTHING
    else:
        doc = responses[0] if responses else ref.NOTHING
    return doc, executions, events, classes
