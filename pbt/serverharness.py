"""Runs one dispatch case against the real dispatcher and collects what the oracles need."""

import contextlib
import json
import logging
from typing import Any, Dict, List, Optional

from pbt import docs, methods as hm, refserver as ref, stdreg
from pbt import errors as he  # noqa: F401  registers custom error classes once
from pbt import jsongen as jg
from pbt import wellformed as wf
from pbt.runner import Disc


def build_error(e: Dict[str, Any]):
    from pjrpc.common import UNSET
    cls = he.BY_NAME[e['cls']]
    if cls is he.QuotaError:
        return cls(e['data']['value']['limit'])
    return cls(code=e['code'], message=e['message'], data=UNSET if 'absent' in e['data'] else e['data']['value'])


class Observation:
    __slots__ = ('raised', 'ret', 'text', 'codes', 'doc', 'parse_error', 'log', 'request_text', 'events')

    def __init__(self) -> None:
        self.raised: Optional[BaseException] = None
        self.ret: Any = None
        self.text: Optional[str] = None
        self.codes: Any = None
        self.doc: Any = ref.NOTHING
        self.parse_error: Optional[str] = None
        self.log: List[Dict[str, Any]] = []
        self.request_text = ''
        self.events: List[Any] = []


def registry_of(spec: Dict[str, Any]) -> List[Dict[str, Any]]:
    r = spec.get('registry', 'std')
    # 'plain': the async dispatcher serving plain (non-coroutine) functions and views - it accepts both kinds
    return stdreg.std_registry('sync' if spec.get('plain') else spec['dispatcher']) if r == 'std' else r


def behaviours_of(spec: Dict[str, Any]) -> Dict[str, Any]:
    if spec.get('registry', 'std') == 'std':
        return stdreg.effective_behaviours(spec.get('behaviours') or {})
    return spec.get('behaviours') or {}


class FalsyContext:
    """a context object that is falsy (like an empty mapping / a settings object defining __len__)"""

    def __bool__(self) -> bool:
        return False


CTX_KINDS = ['object', 'empty-dict', 'empty-list', 'falsy-object', 'none']


def make_context(kind: str = 'object') -> Any:
    """the server-side context handed to dispatch(): a fresh object whose identity the generated methods check"""
    if kind == 'empty-dict':
        return {}
    if kind == 'empty-list':
        return []
    if kind == 'falsy-object':
        return FalsyContext()
    if kind == 'none':
        return None
    return object()


class _Sink(logging.Handler):
    """formats every record (so lazily formatted log arguments are really rendered) and throws the text away"""

    def emit(self, record: logging.LogRecord) -> None:
        try:
            self.format(record)
        except Exception:
            pass


@contextlib.contextmanager
def debug_logging() -> Any:
    """the application runs with the library's loggers at DEBUG (the harness otherwise disables logging altogether)"""
    manager_disable = logging.root.manager.disable
    lg = logging.getLogger('pjrpc')
    saved = (lg.level, lg.propagate, logging.raiseExceptions)
    sink = _Sink()
    logging.disable(logging.NOTSET)
    lg.addHandler(sink)
    lg.setLevel(logging.DEBUG)
    lg.propagate = False
    logging.raiseExceptions = False
    try:
        yield
    finally:
        lg.removeHandler(sink)
        lg.setLevel(saved[0])
        lg.propagate = saved[1]
        logging.raiseExceptions = saved[2]
        logging.disable(manager_disable)


def observe(spec: Dict[str, Any], dispatcher: Any = None, text: Optional[str] = None, **dispatcher_kwargs: Any) -> Observation:
    if spec.get('logging') == 'debug':
        with debug_logging():
            return _observe({k: v for k, v in spec.items() if k != 'logging'}, dispatcher, text, **dispatcher_kwargs)
    return _observe(spec, dispatcher, text, **dispatcher_kwargs)


def _observe(spec: Dict[str, Any], dispatcher: Any = None, text: Optional[str] = None, **dispatcher_kwargs: Any) -> Observation:
    kind = spec['dispatcher']
    sentinel = make_context(spec.get('ctx_value', 'object'))
    hm.RT.reset(sentinel, behaviours_of(spec), error_builder=build_error, yield_once=bool(spec.get('yield_once')))
    if dispatcher is None:
        kw = dict(dispatcher_kwargs)
        if 'max_batch_size' in spec:
            kw['max_batch_size'] = spec['max_batch_size']
        if spec.get('sequential') and kind == 'async':
            kw['concurrent_batch'] = False      # the async dispatcher's documented sequential mode for batches
        if spec.get('codec', 'default') != 'default':
            from pbt import codecs
            kw.update(codecs.kwargs_for(spec['codec'], 'server'))
        dispatcher = hm.build_dispatcher(kind, registry_of(spec), **kw)
    obs = Observation()
    obs.request_text = docs.render(spec['text']) if text is None else text
    try:
        obs.ret = hm.run_dispatch(kind, dispatcher, obs.request_text, sentinel)
    except Exception as e:
        obs.raised = e
    obs.log = hm.RT.log
    obs.events = hm.RT.events
    if obs.raised is None and obs.ret is not None:
        try:
            obs.text, obs.codes = obs.ret
        except Exception:
            obs.parse_error = f"return value is not a (text, codes) pair: {obs.ret!r}"[:300]
            return obs
        if not isinstance(obs.text, str):
            obs.parse_error = f"response text is {type(obs.text).__name__}"
            return obs
        try:
            obs.doc = json.loads(obs.text)     # lenient about NaN / Infinity inside payloads (a method may echo a request's overflowing float)
        except ValueError as e:
            obs.parse_error = f"response text is not JSON: {e}: {obs.text[:200]!r}"
    return obs


def totality_discs(pid: str, obs: Observation) -> List[Disc]:
    """C01: never raises; nothing or (text, codes); text is a JSON-RPC 2.0 response document; codes agree."""
    if obs.raised is not None:
        e = obs.raised
        return [Disc(f"{pid}/dispatch-raised/{type(e).__name__}", f"{type(e).__name__}: {str(e)[:300]} for request {obs.request_text[:300]!r}")]
    if obs.ret is None:
        return []
    if obs.parse_error:
        return [Disc(f"{pid}/malformed-return", obs.parse_error)]
    problems = wf.response_document_problems(obs.doc)
    if problems:
        return [Disc(f"{pid}/not-a-response-document/{problems[0]}", f"{obs.text[:400]!r} problems={problems} for request {obs.request_text[:300]!r}")]
    want = wf.response_codes(obs.doc)
    codes = obs.codes
    if not isinstance(codes, tuple) or len(codes) != len(want) or not all(jg.jeq(a, b) for a, b in zip(codes, want)):
        return [Disc(f"{pid}/codes-disagree", f"codes {codes!r} document codes {want!r} for request {obs.request_text[:300]!r}")]
    return []


def reference_discs(pid: str, obs: Observation, exp: ref.Expectation, ordered_log: bool) -> List[Disc]:
    """document equality with the reference server + execution log equality"""
    out: List[Disc] = []
    if obs.raised is not None or obs.parse_error:
        return out  # reported by totality_discs
    for clause, detail in ref.compare_document(exp.doc, obs.doc):
        out.append(Disc(f"{pid}/response/{clause}", f"{detail} | request {obs.request_text[:300]!r}"))
    got = [{'method': e['method'], 'args': e['args']} for e in obs.log]
    want = exp.executions
    same = len(got) == len(want) and (
        all(jg.jeq(a, b) for a, b in zip(got, want)) if ordered_log else _multiset_eq(got, want)
    )
    if not same:
        if len(got) > len(want):
            clause = 'extra-execution'
        elif len(got) < len(want):
            clause = 'missing-execution'
        else:
            clause = 'wrong-arguments'
        out.append(Disc(f"{pid}/executions/{clause}", f"log {jg.short(got)} expected {jg.short(want)} | request {obs.request_text[:300]!r}"))
    for e in obs.log:
        if e['ctx'].startswith('other'):
            out.append(Disc(f"{pid}/context/not-the-server-context", f"{e} | request {obs.request_text[:300]!r}"))
    return out


def _multiset_eq(a: List[Any], b: List[Any]) -> bool:
    b = list(b)
    for x in a:
        for i, y in enumerate(b):
            if jg.jeq(x, y):
                del b[i]
                break
        else:
            return False
    return not b
