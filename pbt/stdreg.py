"""The standard registry used by the dispatcher-level checks (C01-C03, C10-C13, C18)."""

from typing import Any, Dict, List

from hypothesis import strategies as st

from pbt import jsongen as jg


def P(name: str, kind: str = 'PK', **kw: Any) -> Dict[str, Any]:
    d: Dict[str, Any] = {'name': name, 'kind': kind}
    if 'default' in kw:
        d['default'] = {'value': kw['default']}
    if kw.get('ctx'):
        d['ctx'] = True
    return d


def std_registry(kind: str) -> List[Dict[str, Any]]:
    """kind: 'sync' | 'async' - coroutine flavours exist only under the async dispatcher"""
    co = 'coro' if kind == 'async' else 'func'
    av = 'aview' if kind == 'async' else 'view'
    return [
        {'name': 'echo', 'params': [P('a'), P('b', default=2)], 'flavour': 'func', 'ctx': 'none'},
        {'name': 'kwonly', 'params': [P('k', 'KO'), P('j', 'KO', default=None)], 'flavour': co, 'ctx': 'none'},
        {'name': 'noargs', 'params': [], 'flavour': 'func', 'ctx': 'none'},
        {'name': 'ret', 'params': [P('x', default=None)], 'flavour': co, 'ctx': 'none'},
        {'name': 'rpc_err', 'params': [P('x', default=None)], 'flavour': 'func', 'ctx': 'none'},
        {'name': 'rpc_err2', 'params': [P('x', default=None)], 'flavour': co, 'ctx': 'none'},
        {'name': 'boom', 'params': [P('x', default=None)], 'flavour': co, 'ctx': 'none'},
        {'name': 'boom2', 'params': [], 'flavour': 'func', 'ctx': 'none'},
        {'name': 'with_ctx', 'params': [P('ctx', ctx=True), P('a')], 'flavour': 'func', 'ctx': 'name'},
        {'name': 'pos_ctx', 'params': [P('ctx', ctx=True), P('a', default=0)], 'flavour': co, 'ctx': 'positional'},
        {'name': 'v.get', 'params': [P('a'), P('b', default=None)], 'flavour': av, 'ctx': 'view'},
        {'name': 'a.b.c', 'params': [P('x')], 'flavour': 'func', 'ctx': 'none'},
        # a context-only method (no client parameters at all) and a class based view whose constructor raises
        # (a failure OUTSIDE any method body -> internal error)
        {'name': 'ctx_only', 'params': [P('ctx', ctx=True)], 'flavour': co, 'ctx': 'name'},
        # async dispatcher only: a coroutine method behind a plain (non-async) decorator
        {'name': 'wrapped', 'params': [P('a', default=None)], 'flavour': 'wcoro' if kind == 'async' else 'wfunc', 'ctx': 'none'},
        {'name': 'bad.get', 'params': [P('a', default=None)], 'flavour': av, 'ctx': 'view', 'ctor_raises': True},
        {'name': 'bad2.get', 'params': [P('a', default=None)], 'flavour': av, 'ctx': 'view', 'ctor_raises': 'KeyError'},
        # a method name with a leading underscore (legal in JSON-RPC; registered under an explicit name)
        {'name': '_us', 'params': [P('a', default=None)], 'flavour': 'func', 'ctx': 'none'},
        # a name under the 'rpc.' prefix (the protocol reserves it for extensions; an application may well register one)
        {'name': 'rpc.ext', 'params': [P('a', default=None)], 'flavour': co, 'ctx': 'none'},
        # a method whose parameters are validated against a JSON schema (t must be a string)
        {'name': 'js.tag', 'params': [P('t'), P('n', default=0)], 'flavour': 'func', 'ctx': 'none', 'schema_strings': ['t']},
    ]


DEFAULT_BEHAVIOURS: Dict[str, Any] = {
    'ret': {'kind': 'return', 'value': None},
    'rpc_err': {'kind': 'raise_rpc', 'error': {'cls': 'JsonRpcError', 'code': 7, 'message': 'seven', 'data': {'absent': True}}},
    'rpc_err2': {'kind': 'raise_rpc', 'error': {'cls': 'Custom2001', 'code': None, 'message': None, 'data': {'value': None}}},
    'boom': {'kind': 'raise_exc', 'exc': 'ValueError', 'marker': 'MARKER-boom-1'},
    'boom2': {'kind': 'raise_exc', 'exc': 'ZzCustomBoom', 'marker': 'MARKER-boom-2'},
}

EXC_NAMES = ['ValueError', 'KeyError', 'TypeError', 'AssertionError', 'RuntimeError', 'ZzCustomBoom', 'ZzLookup', 'OSError',
             'ZeroDivisionError', 'AttributeError', 'StopIteration', 'UnicodeDecodeError', 'ValidationError', 'ValidationError', 'DeserializationError',
             'TimeoutError', 'TimeoutError', 'NotImplementedError', 'RecursionError', 'ConnectionResetError', 'FileNotFoundError', 'IndexError',
             'StopAsyncIteration', 'MemoryError', 'ZzUnprintable', 'ZzHttpLikeError', 'ZzRaisedFromRpcError', 'ZzRaisedWhileHandlingRpcError', 'ArithmeticError', 'LookupError', 'PermissionError', 'BufferError', 'EOFError', 'ImportError', 'NameError']

ERR_CODES = [0, 1, -1, 7, 2005, 2006, 2101, -32700, -32600, -32601, -32602, -32603, -32000, -32001, -32050, -32099, 2001, 2002, 2**31, -2**31, 10**30]


_TYPED = ['ParseError', 'InvalidRequestError', 'MethodNotFoundError', 'InvalidParamsError', 'InternalError',
          'ServerError', 'Custom2001', 'Custom2002', 'Custom2003', 'Custom2004', 'Custom2005', 'Custom2006Refined', 'SrvRange', 'ZeroCode', 'SharedA']
_MESSAGES = ['', 'm', 'Method not found'] + jg.EDGE_STRINGS


class _Gen:
    """strategies built once (constructing strategies in hot paths dominates generation cost)"""

    def __init__(self) -> None:
        from pbt import errors  # noqa: F401  (registers the custom classes)
        self.s_bits = st.integers(0, 31)
        self.s_three = st.integers(0, 2)
        self.s_code = st.one_of(st.sampled_from(ERR_CODES), st.sampled_from(ERR_CODES), st.integers(-2**70, 2**70))
        self.s_msg = st.sampled_from(_MESSAGES)
        self.s_msg_or_none = st.sampled_from([None, None] + _MESSAGES)
        self.s_val = st.one_of(jg.cheap_value(), jg.cheap_value(), jg.cheap_value(), jg.json_value(6))
        self.s_typed = st.sampled_from(_TYPED)
        self.s_libtyped = st.sampled_from(['ServerError', 'InternalError', 'SrvRange', 'InvalidParamsError', 'MethodNotFoundError', 'ServerError', 'InternalError'])
        self.s_retval = jg.weighted(st.sampled_from([0, False, '', [], {}, 0.0, None, -0.0]), self.s_val, self.s_val)
        self.s_exc = st.sampled_from(EXC_NAMES)
        self.s_marker = st.integers(0, 10**6)
        self.s_retval_py = jg.weighted(self.s_retval, self.s_retval, st.sampled_from([{'$py': n} for n in sorted(jg.PY_FORMS)]))
        self.rpc_error = st.composite(lambda draw: self._rpc_error(draw))()
        self.behaviours = st.composite(lambda draw: self._behaviours(draw))()
        self.behaviours_py = st.composite(lambda draw: self._behaviours(draw, True))()

    def _data(self, draw):
        k = draw(self.s_three)
        if k == 0:
            return {'absent': True}
        if k == 1:
            return {'value': None}
        return {'value': draw(self.s_val)}

    def _rpc_error(self, draw):
        if draw(self.s_bits) % 8 == 0:
            # an application error class with its own constructor signature
            return {'cls': 'QuotaError', 'code': None, 'message': None, 'data': {'value': {'limit': draw(self.s_three)}}}
        k = draw(self.s_three)
        if k == 0:
            return {'cls': 'JsonRpcError', 'code': draw(self.s_code), 'message': draw(self.s_msg), 'data': self._data(draw)}
        if k == 1:
            # the classes the library itself answers with, raised deliberately by the application with its own message / data
            return {'cls': draw(self.s_libtyped), 'code': self._own_code(draw), 'message': draw(self.s_msg_or_none), 'data': self._data(draw)}
        return {'cls': draw(self.s_typed), 'code': self._own_code(draw), 'message': draw(self.s_msg_or_none), 'data': self._data(draw)}

    def _own_code(self, draw):
        # a typed class is mostly raised with its class-level code; now and then the application passes a code of its own to the
        # constructor (ServerError(code=-32050) is how the reserved range is used without declaring a class per code)
        return draw(self.s_code) if draw(self.s_three) == 0 else None

    def _behaviours(self, draw, pyforms: bool = False):
        bits = draw(self.s_bits)
        out = {}
        if bits & 1:
            out['ret'] = {'kind': 'return', 'value': draw(self.s_retval_py if pyforms else self.s_retval)}
        if bits & 2:
            out['rpc_err'] = {'kind': 'raise_rpc', 'error': self._rpc_error(draw)}
        if bits & 4:
            out['rpc_err2'] = {'kind': 'raise_rpc', 'error': self._rpc_error(draw)}
        if bits & 8:
            out['boom'] = {'kind': 'raise_exc', 'exc': draw(self.s_exc), 'marker': f"MARKER-{draw(self.s_marker)}-zq"}
        if bits & 16:
            out['boom2'] = {'kind': 'raise_exc', 'exc': draw(self.s_exc), 'marker': f"MARKER-{draw(self.s_marker)}-zq"}
        return out


def exception_corpus(marker: str = 'MARKER-exc-zq') -> list:
    """every scripted exception type once per way of serving it - sync dispatcher, async dispatcher + coroutines, async dispatcher + plain
    functions - as a call next to a notification (shared corpus of the dispatcher-level checks)"""
    t = lambda doc: {'doc': doc, 'ascii': True, 'indent': 0, 'pad': '', 'huge': None, 'mangle': None}  # noqa: E731
    out = []
    for kind, plain in (('sync', False), ('async', False), ('async', True)):
        for exc in dict.fromkeys(EXC_NAMES):
            beh = {'boom': {'kind': 'raise_exc', 'exc': exc, 'marker': marker}}
            out.append({'dispatcher': kind, 'plain': plain, 'max_batch_size': None, 'behaviours': beh,
                        'text': t([{'jsonrpc': '2.0', 'id': 1, 'method': 'boom'}, {'jsonrpc': '2.0', 'method': 'boom'}, {'jsonrpc': '2.0', 'id': 2, 'method': 'noargs'}])})
    return out


def rpc_error_corpus() -> list:
    """every boundary error code raised once by a method per way of serving it (as a call next to a notification): the 32 / 53 / 64 bit
    boundaries on both sides, codes far beyond them, the falsy code, codes with and without a registered class, the codes the library itself answers with; with and without data"""
    t = lambda doc: {'doc': doc, 'ascii': True, 'indent': 0, 'pad': '', 'huge': None, 'mangle': None}  # noqa: E731
    codes = [0, -1, 2**31 - 1, 2**31, -2**31 - 1, 2**53, 2**53 + 1, -2**53 - 1, 2**63 - 1, 2**63, -2**63, -2**63 - 1, 2**64, 10**30, -10**30, -32099, -32000, 2008, -32700, -32600, -32601, -32602, -32603]
    out = []
    for kind, plain in (('sync', False), ('async', False), ('async', True)):
        for i, code in enumerate(codes):
            data = {'absent': True} if i % 2 else {'value': {'n': code}}
            beh = {'rpc_err': {'kind': 'raise_rpc', 'error': {'cls': 'JsonRpcError', 'code': code, 'message': 'boundary code', 'data': data}}}
            out.append({'dispatcher': kind, 'plain': plain, 'max_batch_size': None, 'behaviours': beh,
                        'text': t([{'jsonrpc': '2.0', 'id': 1, 'method': 'rpc_err'}, {'jsonrpc': '2.0', 'method': 'rpc_err'}, {'jsonrpc': '2.0', 'id': 2, 'method': 'noargs'}])})
    return out


_GEN = None


def _gen() -> _Gen:
    global _GEN
    if _GEN is None:
        _GEN = _Gen()
    return _GEN


def rpc_error_spec() -> st.SearchStrategy:
    return _gen().rpc_error


def behaviours(pyforms: bool = False) -> st.SearchStrategy:
    """per-case overrides of the standard registry's scripted behaviours; pyforms: 'ret' may also return python values that are
    JSON-encodable without being JSON values (dicts with non-string keys, tuples) - not for the flask integration, whose JSON provider
    sorts keys by default and therefore cannot write mixed-type keys (flask's choice, see DESIGN 7.4)"""
    return _gen().behaviours_py if pyforms else _gen().behaviours


def effective_behaviours(over: Dict[str, Any]) -> Dict[str, Any]:
    b = dict(DEFAULT_BEHAVIOURS)
    b.update(over or {})
    return b
