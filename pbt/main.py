import argparse
import importlib
import os
import sys

from pbt import runner


def load_check(pid: str) -> runner.Check:
    mod = importlib.import_module(f"checks.{pid.lower()}")
    return mod.CHECK


def main() -> int:
    ap = argparse.ArgumentParser()
    ap.add_argument('pid')
    ap.add_argument('--tier', default=os.environ.get('VERIF_TIER', 'quick'), choices=['quick', 'thorough'])
    ap.add_argument('--replay', default=None)
    args = ap.parse_args()
    try:
        seed = int(os.environ.get('VERIF_SEED', '1'))
    except ValueError:
        seed = 1
    try:
        check = load_check(args.pid)
    except Exception as e:  # import failure of the harness or of pjrpc
        import traceback
        traceback.print_exc()
        print(f"HARNESS-ERROR property={args.pid} cannot load check: {type(e).__name__}: {e}")
        return runner.EXIT_HARNESS
    return runner.run_check(check, args.tier, seed, args.replay)


if __name__ == '__main__':
    sys.exit(main())
