"""
JSON codec configurations an application may put on a dispatcher, an integration or a client (all four are documented
constructor arguments): floats are parsed as Decimal and Decimal values are written as tagged strings - so the effect is
visible exactly when BOTH directions honour the configuration.

    'default'   - the library's own
    'classes'   - json_encoder / json_decoder classes
    'functions' - json_loader / json_dumper functions accepting exactly (value, cls=...) (the dumper uses compact separators)
"""

import decimal
import json
from typing import Any, Dict

CODECS = ['default', 'classes', 'functions']


def _classes(base_encoder: Any):
    class AppEncoder(base_encoder):
        def default(self, o: Any) -> Any:
            if isinstance(o, decimal.Decimal):
                return f'decimal:{o}'
            return super().default(o)

    class AppDecoder(json.JSONDecoder):
        def __init__(self, **kwargs: Any):
            kwargs['parse_float'] = decimal.Decimal
            super().__init__(**kwargs)

    return AppEncoder, AppDecoder


def kwargs_for(codec: str, side: str) -> Dict[str, Any]:
    """side: 'server' (pjrpc.server.JSONEncoder knows responses and errors) | 'client' (pjrpc.common.JSONEncoder)"""
    if codec == 'default':
        return {}
    if side == 'server':
        import pjrpc.server
        enc, dec = _classes(pjrpc.server.JSONEncoder)
    else:
        import pjrpc.common
        enc, dec = _classes(pjrpc.common.JSONEncoder)
    if codec == 'classes':
        return {'json_encoder': enc, 'json_decoder': dec}
    if codec == 'cls-ignoring':
        # an adapter for a faster JSON library: it cannot use encoder classes, so it ignores `cls` and knows plain JSON (+ Decimal) only.
        # Only for differential use (C11): the library itself relies on `cls` for some error payloads, both halves alike.
        def plain_loader(text: Any, cls: Any = None) -> Any:
            return json.loads(text, parse_float=decimal.Decimal)

        def _default(o: Any) -> Any:
            if isinstance(o, decimal.Decimal):
                return f'decimal:{o}'
            raise TypeError(f'Object of type {type(o).__name__} is not JSON serializable')

        def plain_dumper(obj: Any, cls: Any = None) -> str:
            return json.dumps(obj, default=_default)
        return {'json_loader': plain_loader, 'json_dumper': plain_dumper}

    # the documented calling convention is loader(text, cls=decoder) / dumper(obj, cls=encoder): nothing else is accepted
    def loader(text: Any, cls: Any = None) -> Any:
        return json.loads(text, cls=dec)

    def dumper(obj: Any, cls: Any = None) -> str:
        return json.dumps(obj, cls=enc, separators=(',', ':'))
    return {'json_loader': loader, 'json_dumper': dumper}
