"""
Harness-owned asyncio scheduler.  Every suspension point in generated coroutines is ``await point(label)``:
it parks on a Future the harness owns.  The driver runs the loop to quiescence, then releases exactly one parked
future chosen by the schedule, and repeats.  ``explore`` enumerates ALL interleavings by depth-first search over
"which parked future next" (re-executing from scratch for every path).
"""

import asyncio
from typing import Any, Callable, Dict, Iterator, List, Optional, Tuple


class Deadlock(Exception):
    pass


class Scheduler:
    def __init__(self) -> None:
        self.loop = asyncio.new_event_loop()
        self.parked: List[Tuple[str, asyncio.Future]] = []
        self.trace: List[str] = []

    async def point(self, label: str) -> None:
        fut = self.loop.create_future()
        self.parked.append((label, fut))
        self.trace.append(f"park {label}")
        await fut
        self.trace.append(f"resume {label}")

    def _quiesce(self) -> None:
        for _ in range(10000):
            self.loop.call_soon(self.loop.stop)
            self.loop.run_forever()
            if not self.loop._ready:  # CPython: the ready queue (no timers or I/O are ever scheduled by the harness)
                return
        raise Deadlock("event loop does not reach quiescence")

    def run(self, make_coro: Callable[[], Any], choices: List[int]) -> Tuple[Any, Optional[BaseException], List[int]]:
        """
        Runs the coroutine following ``choices`` (index into the parked list at each decision point; 0 beyond the prefix).
        Returns (result, exception, option counts at each decision point).
        """
        counts: List[int] = []
        task = self.loop.create_task(make_coro())
        try:
            step = 0
            while True:
                self._quiesce()
                if task.done():
                    break
                if not self.parked:
                    raise Deadlock("task is not done and nothing is parked")
                counts.append(len(self.parked))
                i = choices[step] if step < len(choices) else 0
                step += 1
                label, fut = self.parked.pop(i)
                self.trace.append(f"release {label}")
                fut.set_result(None)
            exc = task.exception()
            return (None if exc else task.result()), exc, counts
        finally:
            if not task.done():
                task.cancel()
                try:
                    self._quiesce()
                except Exception:
                    pass
            self.loop.close()


def explore(run_one: Callable[[List[int]], Tuple[Any, List[int]]], limit: int = 100000) -> Iterator[Tuple[List[int], Any]]:
    """
    run_one(prefix) executes one schedule (following prefix, then always option 0) and returns (payload, counts).
    Yields (full choice list, payload) for every interleaving, in lexicographic order.
    """
    prefix: List[int] = []
    n = 0
    while True:
        payload, counts = run_one(prefix)
        full = prefix + [0] * (len(counts) - len(prefix))
        yield full, payload
        n += 1
        if n >= limit:
            return
        # next path: increment the last position that still has an untried option
        i = len(full) - 1
        while i >= 0 and full[i] + 1 >= counts[i]:
            i -= 1
        if i < 0:
            return
        prefix = full[:i] + [full[i] + 1]
