"""
Coverage-guided campaign (Atheris / libFuzzer) for a check: the fuzzer's bytes are decoded by the check's own Hypothesis
strategy (``fuzz_one_input``), so coverage feedback on pjrpc's Python branches steers *structured* case specs, and every
case is judged by the same run_case + oracle as in the property-based tiers.

usage:  python -m pbt.fuzz <pid> <seconds> <out.json> [corpus_dir]
Writes {'cases', 'evaluations', 'nontrivial', 'classes', 'failures': {bucket: {size, spec, detail}}} to out.json (periodically
and at the end of the time budget; atexit handlers do not run under libFuzzer).
"""

import json
import os
import sys
import time


def main() -> int:
    pid, seconds, out = sys.argv[1], float(sys.argv[2]), sys.argv[3]
    corpus = sys.argv[4] if len(sys.argv) > 4 else None
    extra = sys.argv[5:]
    import logging
    logging.disable(logging.CRITICAL)
    import atheris
    with atheris.instrument_imports(include=['pjrpc']):
        import pjrpc  # noqa: F401
        import pjrpc.server  # noqa: F401
        import pjrpc.client  # noqa: F401
    from hypothesis import HealthCheck, given, settings
    from pbt import runner
    from pbt.main import load_check

    check = load_check(pid)
    sess = runner.Session(check, runner.load_known())
    state = {'n': 0, 'last_dump': time.time(), 't0': time.time()}

    def dump() -> None:
        st = sess.stats
        tmp = out + '.tmp'
        with open(tmp, 'w') as f:
            json.dump(dict(cases=st.cases, evaluations=st.evaluations, nontrivial=[d.hex() for d in st.nontrivial], classes=st.classes,
                           excluded_known=st.excluded_known, failures=sess.failures, wall_s=time.time() - state['t0']), f)
        os.replace(tmp, out)

    @settings(database=None, deadline=None, suppress_health_check=list(HealthCheck), max_examples=10**9)
    @given(check.strategy('thorough'))
    def prop(spec):
        for d in sess.evaluate(spec):
            sess.record_failure(spec, d)
        state['n'] += 1
        if time.time() - state['last_dump'] > 5:
            state['last_dump'] = time.time()
            dump()

    fuzz_one = prop.hypothesis.fuzz_one_input

    def target(data: bytes) -> None:
        try:
            fuzz_one(data)
        except runner.HarnessError:
            raise
        except Exception:
            # hypothesis-internal rejections of malformed byte strings are not findings
            pass

    argv = [sys.argv[0], f'-max_total_time={int(seconds)}', '-max_len=4096', '-print_final_stats=0', '-verbosity=0'] + extra
    if corpus:
        os.makedirs(corpus, exist_ok=True)
        argv.append(corpus)
    dump()
    atheris.Setup(argv, target)
    try:
        atheris.Fuzz()
    finally:
        dump()
    return 0


if __name__ == '__main__':
    sys.exit(main())
