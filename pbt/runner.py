"""
Runner shared by every check: tiers, seeds, Hypothesis settings, sharding, bucketed failure
collection, shrinking -> replay file, known findings, evidence, exit codes.

A check is a subclass of ``Check`` (one per property, in checks/cNN.py).  Cases are
JSON-serialisable *specs*: Hypothesis strategies (and enumerators) produce specs,
``run_case(spec)`` builds the live objects, drives pjrpc and returns an ``Outcome`` holding the
oracle's discrepancies.  The shrunk failing spec is the replay file.
"""

import hashlib
import json
import os
import sys
import time
import traceback
from typing import Any, Callable, Dict, Iterable, List, Optional

VERIF = os.path.dirname(os.path.dirname(os.path.abspath(__file__)))
REPO = os.path.realpath(os.environ.get('PJRPC_REPO', '/repo'))

EXIT_OK, EXIT_VIOLATION, EXIT_HARNESS = 0, 1, 2


class HarnessError(Exception):
    """The harness itself is wrong or the environment is broken: exit 2, never a VIOLATION."""


class Disc:
    """One discrepancy between the implementation and the oracle."""

    __slots__ = ('bucket', 'detail')

    def __init__(self, bucket: str, detail: str = ''):
        self.bucket = bucket
        self.detail = detail

    def __repr__(self) -> str:
        return f"Disc({self.bucket!r}, {self.detail[:300]!r})"


class Outcome:
    __slots__ = ('discs', 'nontrivial', 'classes', 'evaluations')

    def __init__(self, discs: Optional[List[Disc]] = None, nontrivial: bool = False,
                 classes: Iterable[str] = (), evaluations: int = 1):
        self.discs = discs or []
        self.nontrivial = nontrivial
        self.classes = list(classes)
        self.evaluations = evaluations


class Check:
    pid = 'C00'
    level = 'exploration'
    rule = ''
    assumptions: List[str] = []
    required_classes: List[str] = []        # classes that must be non-zero after a search (else exit 2)
    quick_examples = 2000                   # Hypothesis cases, quick tier (single process)
    thorough_examples = 20000               # Hypothesis cases per shard, thorough tier
    thorough_shards = 16
    chunk = 1000                            # cases per @given run (a fresh derived seed each)
    fuzz_seconds = 0                        # thorough tier: length of the additional Atheris campaign (0 = none)
    fuzz_processes = 8
    trusted_base: List[str] = []

    def strategy(self, tier: str):
        raise NotImplementedError

    def run_case(self, spec: Any) -> Outcome:
        raise NotImplementedError

    def corpus(self) -> List[Any]:
        return []

    def enumerate(self, tier: str) -> Optional[Iterable[Any]]:
        """Finite space enumerated completely in this tier (or None)."""
        return None

    def enum_shards(self, tier: str) -> int:
        """number of partitions ``enumerate_shard`` understands (thorough tier)"""
        return 0

    def enumerate_shard(self, tier: str, shard: int, nshards: int) -> Iterable[Any]:
        return ()

    def exhaustive_note(self, tier: str) -> Optional[str]:
        return None

    matchers: Dict[str, Callable[[Any, Disc], bool]] = {}


# ------------------------------------------------------------------------------------------------


def canon(spec: Any) -> str:
    return json.dumps(spec, sort_keys=True, separators=(',', ':'), ensure_ascii=True)


def digest(spec: Any) -> bytes:
    return hashlib.sha1(canon(spec).encode()).digest()[:8]


def lib_frames(tb) -> List[str]:
    out = []
    for fs in traceback.extract_tb(tb):
        fn = os.path.realpath(fs.filename)
        if fn.startswith(REPO + os.sep):
            out.append(f"{os.path.relpath(fn, REPO)}:{fs.name}")
    return out


class Stats:
    def __init__(self) -> None:
        self.evaluations = 0
        self.cases = 0
        self.nontrivial = set()     # 8-byte digests
        self.classes: Dict[str, int] = {}
        self.samples: List[Any] = []
        self.class_samples: Dict[str, Any] = {}
        self.excluded_known: Dict[str, int] = {}
        self.enumerated = 0

    def add(self, spec: Any, out: Outcome) -> None:
        self.cases += 1
        self.evaluations += out.evaluations
        for c in out.classes:
            self.classes[c] = self.classes.get(c, 0) + 1
        if out.nontrivial:
            d = digest(spec)
            if d not in self.nontrivial:
                self.nontrivial.add(d)
                small = len(canon(spec)) < 3000
                if small and len(self.samples) < 4:
                    self.samples.append(spec)
                if small:
                    for c in out.classes:
                        if c not in self.class_samples and len(self.class_samples) < 40:
                            self.class_samples[c] = spec

    def merge(self, other: Dict[str, Any]) -> None:
        self.cases += other['cases']
        self.evaluations += other['evaluations']
        self.enumerated += other['enumerated']
        self.nontrivial.update(bytes.fromhex(h) for h in other['nontrivial'])
        for c, n in other['classes'].items():
            self.classes[c] = self.classes.get(c, 0) + n
        for c, n in other['excluded_known'].items():
            self.excluded_known[c] = self.excluded_known.get(c, 0) + n
        for s in other['samples']:
            if len(self.samples) < 6:
                self.samples.append(s)
        for c, s in other['class_samples'].items():
            self.class_samples.setdefault(c, s)

    def dump(self) -> Dict[str, Any]:
        return dict(
            cases=self.cases, evaluations=self.evaluations, enumerated=self.enumerated,
            nontrivial=[d.hex() for d in self.nontrivial], classes=self.classes,
            excluded_known=self.excluded_known, samples=self.samples, class_samples=self.class_samples,
        )


class Session:
    """Everything one process needs to evaluate cases of one check."""

    def __init__(self, check: Check, known: List[Dict[str, Any]]):
        self.check = check
        self.known = [k for k in known if k['property'] == check.pid and k['status'] == 'known']
        self.stats = Stats()
        # bucket -> smallest failing spec (+ detail)
        self.failures: Dict[str, Dict[str, Any]] = {}

    def evaluate(self, spec: Any, count: bool = True) -> List[Disc]:
        """Runs one case; returns the discrepancies that are not covered by a known finding."""
        try:
            out = self.check.run_case(spec)
        except HarnessError:
            raise
        except Exception as e:  # an exception nobody predicted
            frames = lib_frames(e.__traceback__)
            if not frames:
                raise HarnessError(
                    f"exception inside the harness: {type(e).__name__}: {e}\n"
                    + ''.join(traceback.format_exception(type(e), e, e.__traceback__)),
                ) from e
            out = Outcome(
                [Disc(f"{self.check.pid}/unexpected-exception/{type(e).__name__}/{frames[-1]}",
                      ''.join(traceback.format_exception(type(e), e, e.__traceback__))[-1500:])],
                nontrivial=False, classes=['unexpected-exception'],
            )
        if count:
            self.stats.add(spec, out)
        live = []
        for d in out.discs:
            kf = self.known_for(spec, d)
            if kf is not None:
                if count:
                    self.stats.excluded_known[kf['id']] = self.stats.excluded_known.get(kf['id'], 0) + 1
                continue
            live.append(d)
        return live

    def known_for(self, spec: Any, d: Disc) -> Optional[Dict[str, Any]]:
        for kf in self.known:
            if d.bucket == kf['bucket'] or d.bucket.startswith(kf['bucket'] + '/'):
                m = kf.get('match')
                if m is None or self.check.matchers[m](spec, d):
                    return kf
        return None

    def record_failure(self, spec: Any, d: Disc) -> None:
        size = len(canon(spec))
        cur = self.failures.get(d.bucket)
        if cur is None or size < cur['size']:
            self.failures[d.bucket] = dict(size=size, spec=spec, detail=d.detail)


# ------------------------------------------------------------------------------------------------
# Hypothesis search with bucket collection


def hypothesis_search(sess: Session, tier: str, seed_value: int, n_examples: int,
                      deadline_at: float, shrink_budget_s: float, max_rounds: int = 5) -> bool:
    """
    Returns True when the search completed (False: wall-clock budget exhausted - inconclusive).
    Failures are collected in sess.failures, one entry per bucket, shrunk towards that bucket.
    """
    import hypothesis
    from hypothesis import HealthCheck, Phase, given, settings
    from hypothesis.errors import FailedHealthCheck, Flaky, FlakyFailure, Unsatisfiable

    check = sess.check
    strat = check.strategy(tier)
    done = 0
    chunk_no = 0
    muted: set = set(sess.failures)
    rounds_with_failure = 0

    class Found(Exception):
        pass

    while done < n_examples:
        if time.time() > deadline_at:
            return False
        n = min(check.chunk, n_examples - done)
        state = {'target': None, 'since': None}

        def prop(spec: Any) -> None:
            if state['target'] is None and time.time() > deadline_at:
                return  # out of budget: let the run drain quickly
            shrinking = state['target'] is not None
            live = sess.evaluate(spec, count=not shrinking)
            live = [d for d in live if d.bucket not in muted]
            if not live:
                return
            if state['target'] is None:
                state['target'] = live[0].bucket
                state['since'] = time.time()
            hit = [d for d in live if d.bucket == state['target']]
            if not hit:
                return
            if time.time() - state['since'] > shrink_budget_s:
                return  # stop shrinking: the smallest recorded spec is used
            sess.record_failure(spec, hit[0])
            raise Found(state['target'])

        test = given(strat)(prop)
        test = settings(
            max_examples=n, database=None, deadline=None, derandomize=False, report_multiple_bugs=False,
            suppress_health_check=[HealthCheck.too_slow, HealthCheck.data_too_large, HealthCheck.large_base_example],
            phases=[Phase.generate, Phase.shrink], print_blob=False,
        )(test)
        test = hypothesis.seed(seed_value * 100003 + chunk_no)(test)
        chunk_no += 1
        try:
            test()
            done += n
        except Found:
            pass
        except (Flaky, FlakyFailure):
            if state['target'] is None:
                raise HarnessError("hypothesis reported a flaky test without any recorded failure")
        except (FailedHealthCheck, Unsatisfiable) as e:
            raise HarnessError(f"hypothesis health check: {e}") from e
        except HarnessError:
            raise
        except BaseException as e:
            # hypothesis wraps/re-raises; anything that still has a recorded target is a finding
            if state['target'] is None:
                raise HarnessError(f"unexpected error from hypothesis run: {type(e).__name__}: {e}") from e
        if state['target'] is not None:
            muted.add(state['target'])
            rounds_with_failure += 1
            if rounds_with_failure >= max_rounds:
                return True
    return True


def fuzz_campaign(sess: Session, check: Check, seconds: float) -> Dict[str, Any]:
    """Runs pbt.fuzz (Atheris, coverage-guided, structured through the check's Hypothesis strategy) in parallel processes
    from empty corpora and merges what they found.  An additional explorer, never the only one."""
    import shutil
    import subprocess
    try:
        import atheris  # noqa: F401
    except Exception as e:
        return {'engine': 'atheris', 'status': f'skipped: atheris not importable ({type(e).__name__})'}
    work = os.path.join(VERIF, '.work', 'fuzz', check.pid)
    shutil.rmtree(work, ignore_errors=True)
    os.makedirs(work, exist_ok=True)
    procs = []
    for i in range(check.fuzz_processes):
        out = os.path.join(work, f'out{i}.json')
        cmd = [sys.executable, '-W', 'ignore', '-m', 'pbt.fuzz', check.pid, str(int(seconds)), out, os.path.join(work, f'corpus{i}'), f'-seed={i + 1}']
        procs.append((out, subprocess.Popen(cmd, cwd=VERIF, stdout=subprocess.DEVNULL, stderr=subprocess.DEVNULL)))
    info: Dict[str, Any] = {'engine': 'atheris (libFuzzer) driving the check strategy via hypothesis fuzz_one_input', 'processes': len(procs),
                            'seconds_each': int(seconds), 'cases': 0, 'corpus_entries': 0, 'status': 'ran'}
    for out, p in procs:
        try:
            p.wait(timeout=seconds + 120)
        except subprocess.TimeoutExpired:
            p.kill()
        if os.path.exists(out):
            with open(out) as f:
                r = json.load(f)
            info['cases'] += r['cases']
            sess.stats.merge(dict(cases=r['cases'], evaluations=r['evaluations'], enumerated=0, nontrivial=r['nontrivial'], classes=r['classes'],
                                  excluded_known=r['excluded_known'], samples=[], class_samples={}))
            for bucket, f_ in r['failures'].items():
                cur = sess.failures.get(bucket)
                if cur is None or f_['size'] < cur['size']:
                    sess.failures[bucket] = f_
    for i in range(len(procs)):
        d = os.path.join(work, f'corpus{i}')
        if os.path.isdir(d):
            info['corpus_entries'] += len(os.listdir(d))
    shutil.rmtree(work, ignore_errors=True)
    return info


def enumerate_cases(sess: Session, specs: Iterable[Any], deadline_at: float) -> bool:
    for spec in specs:
        if time.time() > deadline_at:
            return False
        sess.stats.enumerated += 1
        for d in sess.evaluate(spec):
            sess.record_failure(spec, d)
    return True


# ------------------------------------------------------------------------------------------------


def load_known() -> List[Dict[str, Any]]:
    path = os.path.join(VERIF, 'known_findings.json')
    if not os.path.exists(path):
        return []
    with open(path) as f:
        return json.load(f)


def load_corpus(pid: str) -> List[Any]:
    d = os.path.join(VERIF, 'corpus', pid)
    out = []
    if os.path.isdir(d):
        for name in sorted(os.listdir(d)):
            if name.endswith('.json'):
                with open(os.path.join(d, name)) as f:
                    doc = json.load(f)
                out.append(doc['spec'] if isinstance(doc, dict) and 'spec' in doc and 'property' in doc else doc)
    return out


def _shard_worker(args) -> Dict[str, Any]:
    pid, tier, seed_value, shard, nshards, n_examples, deadline_at = args
    import logging
    logging.disable(logging.CRITICAL)
    from pbt.main import load_check
    check = load_check(pid)
    sess = Session(check, load_known())
    res: Dict[str, Any] = dict(shard=shard, complete=True, error=None)
    try:
        if check.enum_shards(tier):
            ok = enumerate_cases(sess, check.enumerate_shard(tier, shard, nshards), deadline_at)
            res['complete'] = res['complete'] and ok
            res['enum_complete'] = ok
        ok = hypothesis_search(sess, tier, seed_value * 1000 + shard + 1, n_examples, deadline_at, shrink_budget_s=60.0)
        res['complete'] = res['complete'] and ok
    except HarnessError as e:
        res['error'] = str(e)
    except BaseException as e:  # noqa
        res['error'] = f"{type(e).__name__}: {e}\n{traceback.format_exc()}"
    res['stats'] = sess.stats.dump()
    res['failures'] = sess.failures
    return res


def run_check(check: Check, tier: str, seed_value: int, replay: Optional[str] = None) -> int:
    import logging
    logging.disable(logging.CRITICAL)
    t0 = time.time()
    pid = check.pid

    import pjrpc
    if not os.path.realpath(pjrpc.__file__).startswith(REPO + os.sep):
        print(f"HARNESS-ERROR property={pid} pjrpc imported from {pjrpc.__file__}, expected under {REPO}")
        return EXIT_HARNESS

    known = load_known()
    sess = Session(check, known)

    if replay is not None:
        with open(replay) as f:
            doc = json.load(f)
        spec = doc['spec'] if isinstance(doc, dict) and 'spec' in doc and 'property' in doc else doc
        live = sess.evaluate(spec)
        for d in live:
            print(f"  discrepancy {d.bucket}: {d.detail[:2000]}")
        if live:
            print(f"VIOLATION property={pid} replay={replay}")
            return EXIT_VIOLATION
        print(f"replay {replay}: property {pid} holds on this case")
        return EXIT_OK

    budget = float(os.environ.get('VERIF_BUDGET_S', '240' if tier == 'quick' else '1500'))
    deadline_at = t0 + budget
    complete = True
    exhaustive = False
    enum_complete = None
    fuzz_info: Optional[Dict[str, Any]] = None

    try:
        # 1. known-finding witnesses: still failing -> KNOWN-FINDING line
        for kf in sess.known:
            out_discs = []
            try:
                out = check.run_case(kf['witness'])
                out_discs = out.discs
            except HarnessError:
                raise
            except Exception as e:
                frames = lib_frames(e.__traceback__)
                if not frames:
                    raise HarnessError(f"known finding witness {kf['id']} crashed in harness: {e!r}") from e
                out_discs = [Disc(f"{pid}/unexpected-exception/{type(e).__name__}/{frames[-1]}")]
            still = [d for d in out_discs if d.bucket == kf['bucket'] or d.bucket.startswith(kf['bucket'] + '/')]
            if still:
                print(f"KNOWN-FINDING: property={pid} {kf['id']}: {kf['what']}")
            else:
                print(f"note: known finding {kf['id']} no longer reproduces on this tree")

        # 2. replay tier: corpus (repo test literals, past counter-examples, witnesses of fixed findings)
        seeds = list(check.corpus()) + load_corpus(pid)
        seeds += [k['witness'] for k in known if k['property'] == pid and k['status'] == 'fixed' and k.get('witness') is not None]
        for spec in seeds:
            for d in sess.evaluate(spec):
                sess.record_failure(spec, d)

        # 3. enumeration + generated search
        if tier == 'quick':
            specs = check.enumerate('quick')
            if specs is not None:
                enum_complete = enumerate_cases(sess, specs, deadline_at)
                complete = complete and enum_complete
            ok = hypothesis_search(sess, tier, seed_value, check.quick_examples, deadline_at, shrink_budget_s=25.0)
            complete = complete and ok
        else:
            import multiprocessing as mp
            nshards = check.thorough_shards
            ctx = mp.get_context('fork')
            jobs = [(pid, tier, seed_value, i, nshards, check.thorough_examples, deadline_at) for i in range(nshards)]
            with ctx.Pool(min(nshards, os.cpu_count() or 1)) as pool:
                results = pool.map(_shard_worker, jobs, chunksize=1)
            enum_flags = []
            for res in results:
                if res['error']:
                    raise HarnessError(f"shard {res['shard']}: {res['error']}")
                sess.stats.merge(res['stats'])
                complete = complete and res['complete']
                if 'enum_complete' in res:
                    enum_flags.append(res['enum_complete'])
                for bucket, f in res['failures'].items():
                    cur = sess.failures.get(bucket)
                    if cur is None or f['size'] < cur['size']:
                        sess.failures[bucket] = f
            if enum_flags:
                enum_complete = all(enum_flags)
            if check.fuzz_seconds and time.time() < deadline_at:
                fuzz_info = fuzz_campaign(sess, check, min(check.fuzz_seconds, max(10.0, deadline_at - time.time())))
        exhaustive = bool(enum_complete) and check.exhaustive_note(tier) is not None

        missing = [c for c in check.required_classes if not sess.stats.classes.get(c)]
        if missing and complete and not sess.failures:
            raise HarnessError(f"generator does not reach classes: {missing}")

    except HarnessError as e:
        print(f"HARNESS-ERROR property={pid} {e}")
        return EXIT_HARNESS

    # 4. report
    violations = []
    for bucket, f in sorted(sess.failures.items()):
        h = hashlib.sha1(bucket.encode()).hexdigest()[:12]
        d = os.path.join(os.environ.get('VERIF_REPLAY_DIR') or os.path.join(VERIF, 'replays'), pid)
        os.makedirs(d, exist_ok=True)
        path = os.path.join(d, f"{h}.json")
        with open(path, 'w') as fh:
            json.dump(dict(property=pid, bucket=bucket, detail=f['detail'][:4000], spec=f['spec']), fh, indent=1)
        violations.append((bucket, path, f['detail']))

    st = sess.stats
    samples = list(st.samples)
    for c in sorted(st.class_samples):
        if len(samples) >= 12:
            break
        s = st.class_samples[c]
        if s not in samples:
            samples.append(s)
    coverage: Dict[str, Any] = dict(
        evaluations=st.evaluations,
        cases=st.cases,
        distinct_nontrivial=len(st.nontrivial),
        rule=check.rule,
        samples=samples,
        classes=dict(sorted(st.classes.items())),
        excluded_known=st.excluded_known,
        enumerated=st.enumerated,
        exhaustive=exhaustive,
        inconclusive_budget=not complete,
        trusted_base=check.trusted_base,
        shards=1 if tier == 'quick' else check.thorough_shards,
    )
    note = check.exhaustive_note(tier)
    if note:
        coverage['exhaustive_note'] = note
    if fuzz_info is not None:
        coverage['fuzz_campaign'] = fuzz_info
    evidence = dict(
        property_id=pid, tier=tier, seed=seed_value, level=check.level, coverage=coverage,
        assumptions=check.assumptions, wall_s=round(time.time() - t0, 2), violations=len(violations),
    )
    evdir = os.environ.get('VERIF_EVIDENCE_DIR') or os.path.join(VERIF, 'evidence')
    os.makedirs(evdir, exist_ok=True)
    with open(os.path.join(evdir, f'{pid}.json'), 'w') as fh:
        json.dump(evidence, fh, indent=1, sort_keys=True)
        fh.write('\n')

    print(f"{pid} tier={tier} seed={seed_value} cases={st.cases} evaluations={st.evaluations} "
          f"distinct_nontrivial={len(st.nontrivial)} enumerated={st.enumerated} exhaustive={exhaustive} "
          f"complete={complete} wall={time.time() - t0:.1f}s")
    for bucket, path, detail in violations:
        print(f"  bucket {bucket}: {detail[:600]}")
        print(f"VIOLATION property={pid} replay={os.path.relpath(path, VERIF) if path.startswith(VERIF + os.sep) else path}")
    return EXIT_VIOLATION if violations else EXIT_OK
