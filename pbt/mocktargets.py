"""Client classes targeted by PjRpcMocker(target='pbt.mocktargets.<Class>._request') in C20."""

import json
from typing import Any, List, Optional, Tuple

from pjrpc.client import AbstractAsyncClient, AbstractClient

REAL_CALLS: List[Tuple[Any, ...]] = []


def _real_reply(endpoint: str, request_text: str, is_notification: bool, kwargs: Any = None) -> Optional[str]:
    # what the real transport was handed: endpoint, text, flag and the transport keyword arguments (headers, timeout ...)
    REAL_CALLS.append((endpoint, request_text, is_notification, dict(kwargs or {})))
    return json.dumps({'real-transport': endpoint, 'echo': request_text})


class SyncTarget(AbstractClient):
    def __init__(self, endpoint: str, **kwargs: Any):
        super().__init__(**kwargs)
        self._endpoint = endpoint

    def _request(self, request_text: str, is_notification: bool = False, **kwargs: Any) -> Optional[str]:
        return _real_reply(self._endpoint, request_text, is_notification, kwargs)


class AsyncTarget(AbstractAsyncClient):
    def __init__(self, endpoint: str, **kwargs: Any):
        super().__init__(**kwargs)
        self._endpoint = endpoint

    async def _request(self, request_text: str, is_notification: bool = False, **kwargs: Any) -> Optional[str]:
        return _real_reply(self._endpoint, request_text, is_notification, kwargs)
