"""
Builds real Python functions / coroutines / class based views from JSON signature specs, with recording
bodies and scripted behaviours, plus the *twin* used as binding oracle ("a direct Python call").

method spec:
  name      exposed method name ('m', 'v.get')
  params    [{'name', 'kind': PO|PK|VP|KO|VK, 'default'?: {'value': v}, 'ctx'?: true}]   (valid python order)
  flavour   func | coro | view | aview
  ctx       none | name | positional | view
  behaviour {'kind': echo | return | raise_rpc | raise_exc, ...}   (may be overridden per case)

Function objects are cached by their source text: pjrpc's validator keeps every function it has ever seen in
an unbounded cache, so creating fresh functions per case would grow memory without bound.  Behaviour is looked up
at call time in the per-case runtime (RT), never baked into the function.
"""

import asyncio
import copy
import keyword
from typing import Any, Callable, Dict, List, Optional, Tuple

from pbt import jsongen as jg

KIND_ORDER = {'PO': 0, 'PK': 1, 'VP': 2, 'KO': 3, 'VK': 4}


class ZzCustomBoom(Exception):
    pass


class ZzLookup(LookupError):
    pass


class ZzHttpLikeError(Exception):
    """an ordinary application exception that happens to carry `code` and `message` attributes (an HTTP client's error, say)"""

    def __init__(self, marker: str):
        super().__init__(marker)
        self.code = 429
        self.message = marker
        self.data = {'retry-after': marker}


class ZzUnprintable(Exception):
    """an exception whose text cannot be produced (a broken __repr__ / __str__ in application code): still an ordinary exception"""

    def __repr__(self) -> str:
        raise RuntimeError('this exception cannot be printed')

    __str__ = __repr__


EXC = {
    'ValueError': ValueError, 'KeyError': KeyError, 'TypeError': TypeError, 'AssertionError': AssertionError,
    'ZzRaisedFromRpcError': None, 'ZzRaisedWhileHandlingRpcError': None, 'ZzHttpLikeError': ZzHttpLikeError, 'RuntimeError': RuntimeError, 'ZzCustomBoom': ZzCustomBoom, 'ZzLookup': ZzLookup, 'ZzUnprintable': ZzUnprintable, 'OSError': OSError,
    'ZeroDivisionError': ZeroDivisionError, 'AttributeError': AttributeError, 'StopIteration': StopIteration,
    'UnicodeDecodeError': None, 'ValidationError': None, 'DeserializationError': None,  # built specially
    'TimeoutError': TimeoutError, 'NotImplementedError': NotImplementedError, 'RecursionError': RecursionError,
    'ConnectionResetError': ConnectionResetError, 'FileNotFoundError': FileNotFoundError, 'IndexError': IndexError,
    'StopAsyncIteration': StopAsyncIteration, 'MemoryError': MemoryError, 'ArithmeticError': ArithmeticError, 'LookupError': LookupError,
    'PermissionError': PermissionError, 'BufferError': BufferError, 'EOFError': EOFError, 'ImportError': ImportError, 'NameError': NameError,
}


def make_exc(name: str, marker: str) -> Exception:
    if name == 'UnicodeDecodeError':
        return UnicodeDecodeError('utf-8', b'\xff', 0, 1, marker)
    if name == 'ValidationError':       # pjrpc's own parameter-validation exception raised from INSIDE a method body
        from pjrpc.server import validators
        return validators.ValidationError(marker)
    if name == 'DeserializationError':  # a library (non protocol) exception raised from inside a method body
        from pjrpc.common.exceptions import DeserializationError
        return DeserializationError(marker)
    if name in ('ZzRaisedFromRpcError', 'ZzRaisedWhileHandlingRpcError'):
        # an ordinary exception raised `from` a protocol error / while one was being handled inside the method body: still an ordinary
        # exception (what matters is what the method raised, not what it had caught)
        from pjrpc.common.exceptions import JsonRpcError
        e = RuntimeError(marker)
        inner = JsonRpcError(code=7, message='inner protocol error', data={'inner': True})
        if name == 'ZzRaisedFromRpcError':
            e.__cause__ = inner
        else:
            e.__context__ = inner
        return e
    return EXC[name](marker)


class NoCtx:
    def __repr__(self) -> str:
        return 'NOCTX'


NOCTX = NoCtx()


class Runtime:
    """Per-case state shared by all generated methods."""

    def __init__(self) -> None:
        self.reset(None, {})

    def reset(self, sentinel: Any, behaviours: Dict[str, Any], error_builder: Optional[Callable[[Any], Exception]] = None,
              point: Optional[Callable[[str], Any]] = None, suspend: Optional[Dict[str, int]] = None, yield_once: bool = False) -> None:
        self.yield_once = yield_once
        self.log: List[Dict[str, Any]] = []
        self.sentinel = sentinel
        self.behaviours = behaviours
        self.error_builder = error_builder
        self.point = point             # async callable(label) used as suspension point (C10)
        self.suspend = suspend or {}   # method key -> number of suspension points
        self.events: List[Any] = []

    def _record(self, key: str, bound: Dict[str, Any], ctx: Any, tag: Any = None) -> Dict[str, Any]:
        # a deep copy: the echo behaviour consumes the live arguments afterwards
        args = copy.deepcopy({k: (list(v) if isinstance(v, tuple) else v) for k, v in bound.items()})
        self._live = bound
        if ctx is NOCTX:
            c = 'none'
        elif ctx is self.sentinel:
            c = 'sentinel'
        else:
            c = f'other:{ctx!r}'[:80]
        entry = {'method': key, 'args': args, 'ctx': c}
        self.log.append(entry)
        return entry

    def _behave(self, key: str, entry: Dict[str, Any]) -> Any:
        b = self.behaviours.get(key) or {'kind': 'echo'}
        k = b['kind']
        if k == 'echo':
            # the method CONSUMES its container arguments (pops them empty) after copying them into its result: legitimate for a
            # method - its arguments are its own - and it makes any sharing of parsed request data between requests visible
            for v in getattr(self, '_live', {}).values():
                if isinstance(v, (list, dict)):
                    v.clear()
            return {'method': key, 'args': copy.deepcopy(entry['args'])}
        if k == 'return':
            return jg.py_materialise(b['value'])
        if k == 'raise_rpc':
            raise self.error_builder(b['error'])
        if k == 'raise_exc':
            raise make_exc(b['exc'], b['marker'])
        raise AssertionError(f"unknown behaviour {k}")

    def call(self, key: str, bound: Dict[str, Any], ctx: Any) -> Any:
        tag = bound.get('tag')
        self.events.append(['start', key, tag])
        entry = self._record(key, bound, ctx)
        try:
            return self._behave(key, entry)
        finally:
            self.events.append(['end', key, tag])

    async def acall(self, key: str, bound: Dict[str, Any], ctx: Any) -> Any:
        tag = bound.get('tag')
        if self.yield_once:
            # the coroutine method really suspends once BEFORE it records its execution, so that a dispatcher which stops
            # waiting for an element (e.g. fire-and-forget notifications) is observable in the execution log
            await asyncio.sleep(0)
        self.events.append(['start', key, tag])
        entry = self._record(key, bound, ctx)
        try:
            if self.point is not None:
                n = self.suspend.get(f"tag:{tag}", self.suspend.get(key, 0)) if not isinstance(tag, (list, dict)) else 0
                for i in range(n):
                    await self.point(f"{key}[{tag}]#{i}")
            return self._behave(key, entry)
        finally:
            self.events.append(['end', key, tag])


RT = Runtime()

_FUNC_CACHE: Dict[str, Any] = {}


def _pyname(name: str) -> str:
    base = name.rsplit('.', 1)[-1]
    if not base.isidentifier() or keyword.iskeyword(base):
        base = 'f_' + ''.join(ch if ch.isalnum() else '_' for ch in base)
    return base


def sig_source(params: List[Dict[str, Any]], skip_ctx: bool = False, leading_self: Any = False, annotate: bool = False) -> Tuple[str, List[str]]:
    """returns (parameter list source, names of non-context parameters); leading_self: False, True ('self') or the instance parameter's name"""
    parts: List[str] = [leading_self if isinstance(leading_self, str) else 'self'] if leading_self else []
    names: List[str] = []
    seen_po = any(p['kind'] == 'PO' for p in params if not (skip_ctx and p.get('ctx')))
    po_open = seen_po
    star_done = False
    for p in params:
        if skip_ctx and p.get('ctx'):
            continue
        kind = p['kind']
        if po_open and kind != 'PO':
            parts.append('/')
            po_open = False
        if kind == 'KO' and not star_done:
            parts.append('*')
            star_done = True
        if kind == 'VP':
            parts.append('*' + p['name'])
            star_done = True
        elif kind == 'VK':
            parts.append('**' + p['name'])
        else:
            src = p['name']
            if annotate and not p.get('ctx'):
                # a string annotation naming a type that exists for the type checker only (imported under TYPE_CHECKING)
                src += ": 'OnlyKnownToTheTypeChecker'"
            if 'default' in p:
                src += ('=' if not (annotate and not p.get('ctx')) else ' = ') + repr(p['default']['value'])
            parts.append(src)
        if not p.get('ctx'):
            names.append(p['name'])
    if po_open:
        parts.append('/')
    return ', '.join(parts), names


def valid_order(params: List[Dict[str, Any]]) -> bool:
    """python accepts this parameter list"""
    try:
        src, _ = sig_source(params)
        compile(f"def f({src}): pass", '<sig>', 'exec')
        return True
    except SyntaxError:
        return False


def _exec(src: str, name: str, fresh: bool = False) -> Any:
    """fresh: a new function object nobody else references (the caller drops it again) - otherwise cached by source text"""
    fn = None if fresh else _FUNC_CACHE.get(src)
    if fn is None:
        ns: Dict[str, Any] = {'_RT': RT, 'NOCTX': NOCTX}
        exec(compile(src, f'<generated {name}>', 'exec'), ns)
        fn = ns[name]
        if not fresh:
            _FUNC_CACHE[src] = fn
    return fn


def build_twin(mspec: Dict[str, Any]) -> Callable[..., Dict[str, Any]]:
    src, _ = sig_source(mspec['params'], skip_ctx=True)
    return _exec(f"def twin({src}):\n    return locals()\n", 'twin')


def build_function(mspec: Dict[str, Any]) -> Any:
    """plain function or coroutine function for flavours func / coro"""
    key = mspec['name']
    py = _pyname(key)
    src, names = sig_source(mspec['params'], annotate=bool(mspec.get('annotations')))
    ctx_names = [p['name'] for p in mspec['params'] if p.get('ctx')]
    ctx_expr = ctx_names[0] if ctx_names else 'NOCTX'
    bound = '{' + ', '.join(f'{n!r}: {n}' for n in names) + '}'
    if mspec['flavour'] == 'wcoro':
        # an async method behind an ordinary (non-async) decorator: calling it returns a coroutine, but it is not a coroutine function
        body = (f"async def _inner_{py}({src}):\n    return await _RT.acall({key!r}, {bound}, {ctx_expr})\n\n\n"
                f"def {py}(*args, **kwargs):\n    return _inner_{py}(*args, **kwargs)\n\n\n{py}.__wrapped__ = _inner_{py}\n")
    elif mspec['flavour'] == 'wfunc':
        # a plain function behind an ordinary functools.wraps decorator: its signature is the inner function's (via __wrapped__)
        body = (f"import functools\n\n\ndef _inner_{py}({src}):\n    return _RT.call({key!r}, {bound}, {ctx_expr})\n\n\n"
                f"@functools.wraps(_inner_{py})\ndef {py}(*args, **kwargs):\n    return _inner_{py}(*args, **kwargs)\n")
    elif mspec['flavour'] == 'coro':
        body = f"async def {py}({src}):\n    return await _RT.acall({key!r}, {bound}, {ctx_expr})\n"
    else:
        body = f"def {py}({src}):\n    return _RT.call({key!r}, {bound}, {ctx_expr})\n"
    return _exec(body, py, fresh=bool(mspec.get('ephemeral')))


def build_view(mspec: Dict[str, Any], extra_members: bool = False) -> Any:
    """a ViewMixin subclass holding one public method (plus optional private members)"""
    from pjrpc.server import ViewMixin
    key = mspec['name']
    py = _pyname(key)
    me = mspec.get('self_name', 'self')      # the instance parameter need not be called 'self'
    src, names = sig_source(mspec['params'], leading_self=me, annotate=bool(mspec.get('annotations')))
    bound = '{' + ', '.join(f'{n!r}: {n}' for n in names) + '}'
    if mspec.get('static'):
        # a public @staticmethod of the view: no instance parameter, no access to the constructor context
        ssrc, _ = sig_source(mspec['params'])
        if mspec['flavour'] == 'aview':
            meth = f"    @staticmethod\n    async def {py}({ssrc}):\n        return await _RT.acall({key!r}, {bound}, NOCTX)\n"
        else:
            meth = f"    @staticmethod\n    def {py}({ssrc}):\n        return _RT.call({key!r}, {bound}, NOCTX)\n"
    elif mspec['flavour'] == 'aview' and mspec.get('scratch'):
        # the view instance is used as per-request scratch space across a suspension (what per-request instances are for)
        meth = (f"    async def {py}({src}):\n        self._scratch = dict({bound})\n"
                f"        r = await _RT.acall({key!r}, {bound}, self._ctx)\n"
                f"        if isinstance(r, dict) and 'args' in r:\n            r['args'] = self._scratch\n        return r\n")
    elif mspec['flavour'] == 'aview':
        meth = f"    async def {py}({src}):\n        return await _RT.acall({key!r}, {bound}, {me}._ctx)\n"
    else:
        meth = f"    def {py}({src}):\n        return _RT.call({key!r}, {bound}, {me}._ctx)\n"
    # ctor_raises: True -> RuntimeError; a string -> that builtin exception class (a KeyError / LookupError from a mapping lookup ...)
    cr = mspec.get('ctor_raises')
    ctor_extra = f"        raise {cr if isinstance(cr, str) else 'RuntimeError'}('view constructor failed')\n" if cr else ''
    cls_src = (
        f"class View_{py}(ViewMixin):\n"
        f"    def __init__(self, view_context=NOCTX):\n"
        f"        super().__init__()\n"
        f"        self._ctx = view_context\n"
        f"{ctor_extra}"
        f"{meth}"
    )
    cache_key = cls_src
    cls = _FUNC_CACHE.get(cache_key)
    if cls is None:
        ns: Dict[str, Any] = {'_RT': RT, 'NOCTX': NOCTX, 'ViewMixin': ViewMixin}
        exec(compile(cls_src, f'<generated view {py}>', 'exec'), ns)
        cls = ns[f'View_{py}']
        _FUNC_CACHE[cache_key] = cls
    return cls


def register(target: Any, mspec: Dict[str, Any]) -> None:
    """registers one generated method on a pjrpc MethodRegistry"""
    key = mspec['name']
    ctx_mode = mspec.get('ctx', 'none')
    if mspec['flavour'] in ('view', 'aview'):
        cls = build_view(mspec)
        prefix = key.rsplit('.', 1)[0] if '.' in key else None
        target.view(cls, context='context' if ctx_mode == 'view' else None, prefix=prefix)
        return
    fn = build_function(mspec)
    if mspec.get('schema_strings'):
        # validated by the library's JSON-schema validator (one validator object per registration, as a decorator would create it)
        from pjrpc.server.validators import jsonschema as vjs
        schema = {'type': 'object', 'properties': {n: {'type': 'string'} for n in mspec['schema_strings']}}
        fn = vjs.JsonSchemaValidator().validate(fn, schema=schema)
    ctx_names = [p['name'] for p in mspec['params'] if p.get('ctx')]
    if ctx_mode == 'none':
        # positional_flag: registered with positional=True although no parameter receives a context (the flag then means nothing)
        target.add(fn, name=key, **({'positional': True} if mspec.get('positional_flag') else {}))
    else:
        target.add(fn, name=key, context=ctx_names[0], positional=(ctx_mode == 'positional'))


def build_dispatcher(kind: str, registry: List[Dict[str, Any]], **kwargs: Any) -> Any:
    import pjrpc.server
    if kind == 'sync':
        kwargs.pop('concurrent_batch', None)
        d = pjrpc.server.Dispatcher(**kwargs)
    else:
        d = pjrpc.server.AsyncDispatcher(**kwargs)
    reg = pjrpc.server.MethodRegistry()
    for m in registry:
        if m.get('via') == 'dispatcher.add' and m['flavour'] not in ('view', 'aview'):
            # registered on the dispatcher itself (dispatcher.add has the same name / context / positional arguments)
            ctx_names = [p['name'] for p in m['params'] if p.get('ctx')]
            d.add(build_function(m), m['name'], context=ctx_names[0] if ctx_names else None, positional=(m.get('ctx') == 'positional' or bool(m.get('positional_flag'))))
        else:
            register(reg, m)
    d.add_methods(reg)
    return d


def run_dispatch(kind: str, dispatcher: Any, text: str, context: Any) -> Any:
    if kind == 'sync':
        return dispatcher.dispatch(text, context)
    return run_coro(dispatcher.dispatch(text, context))


_LOOP: Optional[asyncio.AbstractEventLoop] = None


def run_coro(coro: Any) -> Any:
    """runs a coroutine to completion on a process-wide private loop (asyncio.run costs ~100us per call)"""
    global _LOOP
    if _LOOP is None or _LOOP.is_closed():
        _LOOP = asyncio.new_event_loop()
    import time
    t0 = time.monotonic()
    try:
        return _LOOP.run_until_complete(asyncio.wait_for(coro, HANG_SECONDS))
    except asyncio.TimeoutError:
        if time.monotonic() - t0 < HANG_SECONDS - 1:
            raise       # a TimeoutError of the code under test, not the watchdog's
        raise DidNotReturn(f"the coroutine did not finish within {HANG_SECONDS} s (cases take milliseconds)") from None


# A coroutine under test that never finishes (a future nobody resolves) would hang the whole check.  Cases take milliseconds, so a bound
# four orders of magnitude above that is reported as "did not return" - an ordinary exception for the checks, which judge it like any
# other exception escaping the call.
HANG_SECONDS = 30


class DidNotReturn(Exception):
    pass


def _after_fork() -> None:
    global _LOOP
    _LOOP = None


import os as _os  # noqa: E402

_os.register_at_fork(after_in_child=_after_fork)
