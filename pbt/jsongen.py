"""JSON value / id strategies and type-aware JSON equality."""

import copy
import json
import math
from typing import Any

from hypothesis import strategies as st

MAX_DIGITS = 4299  # Python's int<->str limit is 4300 digits; stay below it for *values*

EDGE_INTS = [0, 1, -1, 2, 7, 2**31 - 1, 2**31, -2**31, 2**53 - 1, 2**53, 2**53 + 1, -2**53 - 1, 2**63, -2**63, 2**64, 10**30]
EDGE_FLOATS = [0.0, -0.0, 1.0, -1.0, 1.5, 0.1, 1e308, -1e308, 5e-324, 2.0**53, 1e-7, 3.141592653589793]
EDGE_STRINGS = ['', ' ', 'a', '0', '1', 'null', 'true', 'id', 'jsonrpc', 'method', 'params', 'self', 'result', 'error',
                '"', '\\', '\n', '\t', '\x00', '\x1f', '\x7f', '\u00e9', '\u2028', '\ufeff', '\U0001f600', '{"a":1}', '[1]']


def big_int() -> st.SearchStrategy:
    # 50 .. 4299 digits
    return st.builds(
        lambda nd, lead, sign: sign * int(str(lead) + '7' * (nd - 1)),
        st.sampled_from([50, 100, 640, 1000, 4299]), st.integers(1, 9), st.sampled_from([1, -1]),
    )


def weighted(*strategies: st.SearchStrategy) -> st.SearchStrategy:
    """one_of in which repeating a strategy object raises its weight.  (st.one_of drops branches that are the same object, so
    `one_of(a, a, b)` picks a and b with equal probability.)"""
    seen: set = set()
    parts = []
    for s in strategies:
        parts.append(s.map(lambda x: x) if id(s) in seen else s)
        seen.add(id(s))
    return st.one_of(*parts)


def integers() -> st.SearchStrategy:
    return st.one_of(
        st.sampled_from(EDGE_INTS),
        st.integers(-10, 10),
        st.integers(-2**70, 2**70),
    )


def integers_with_big() -> st.SearchStrategy:
    return st.one_of(integers(), integers(), integers(), big_int())


def floats() -> st.SearchStrategy:
    return st.one_of(st.sampled_from(EDGE_FLOATS), st.floats(allow_nan=False, allow_infinity=False))


def strings(surrogates: bool = False) -> st.SearchStrategy:
    alphabet = st.characters() if surrogates else st.characters(exclude_categories=['Cs'])
    return st.one_of(st.sampled_from(EDGE_STRINGS), st.text(alphabet, max_size=12))


SCALAR_POOL = [None, True, False] + EDGE_INTS + EDGE_FLOATS + EDGE_STRINGS


def scalars(big: bool = True) -> st.SearchStrategy:
    pool = st.sampled_from(SCALAR_POOL)
    rnd = st.one_of(st.integers(-2**70, 2**70), st.floats(allow_nan=False, allow_infinity=False),
                    st.text(st.characters(exclude_categories=['Cs']), max_size=12))
    return weighted(pool, pool, pool, rnd, big_int()) if big else weighted(pool, pool, pool, rnd)


def keys() -> st.SearchStrategy:
    return st.one_of(st.sampled_from(['', 'a', 'b', 'id', 'jsonrpc', 'self', 'code', 'data', '0']), st.text(st.characters(exclude_categories=['Cs']), max_size=6))


def _recursive_value(max_leaves: int, big: bool) -> st.SearchStrategy:
    return st.recursive(
        scalars(big),
        lambda children: st.one_of(
            st.lists(children, max_size=4),
            st.dictionaries(keys(), children, max_size=4),
        ),
        max_leaves=max_leaves,
    )


def _build_pool() -> list:
    """A fixed, deterministic pool of diverse JSON values: one Hypothesis draw instead of a recursive one
    (st.recursive costs ~3 ms per value, which would dominate every check)."""
    sc = [None, True, False, 0, 1, -1, 2**31, 2**53 + 1, -2**63, 10**30, 0.0, -0.0, 1.0, 1.5, 1e308, 5e-324, 0.1,
          '', 'a', '1', 'null', 'id', '"', '\\', '\n', '\x00', '\u00e9', '\u2028', '\U0001f600', '{"a":1}']
    pool = list(sc)
    pool += [[], {}, [[]], [{}], {'': []}, {'a': {}}, [None], [0], [False], [''], {'a': None}, {'': 0}, {'id': 1, 'jsonrpc': '2.0'}]
    for i, v in enumerate(sc):
        w = sc[(i * 7 + 3) % len(sc)]
        pool.append([v, w])
        pool.append({'a': v, 'b': [w]})
        pool.append({'k': {'n': [v, {'deep': w}]}, '': w})
        pool.append([[v], [[w]], {'self': v}])
    pool += [nested(d, leaf, kind) for d in (2, 5, 16, 40) for leaf in (1, None, 'x') for kind in ('list', 'dict', 'mixed')]
    pool += [list(range(20)), {str(i): i for i in range(12)}, ['x' * 300], 'y' * 1000]
    return pool


def json_value(max_leaves: int = 12, big: bool = True) -> st.SearchStrategy:
    pool = st.sampled_from(POOL)
    return weighted(pool, pool, scalars(big), _recursive_value(max_leaves, big))


def json_container(max_leaves: int = 8) -> st.SearchStrategy:
    v = json_value(max_leaves)
    return st.one_of(st.lists(v, max_size=4), st.dictionaries(keys(), v, max_size=4))


def nested(depth: int, leaf: Any = 1, kind: str = 'list') -> Any:
    v = leaf
    for i in range(depth):
        if kind == 'list' or (kind == 'mixed' and i % 2 == 0):
            v = [v]
        else:
            v = {'k': v}
    return v


POOL = _build_pool()


# ids -------------------------------------------------------------------------------------------

VALID_ID_EDGES = [0, 1, -1, 2, 3, 2**53 + 1, -2**63, 10**30, '', '0', '1', '2', 'null', 'abc', '\u00e9\U0001f600', ' 1']
INVALID_IDS = [True, False, 1.0, 1.5, 0.0, [], [1], {}, {'a': 1}]


def valid_ids(allow_null: bool = True) -> st.SearchStrategy:
    parts = [st.sampled_from(VALID_ID_EDGES), st.integers(-5, 5), st.integers(-2**70, 2**70), st.text(st.characters(exclude_categories=['Cs']), max_size=5)]
    if allow_null:
        parts.append(st.none())
    return st.one_of(*parts)


def call_ids() -> st.SearchStrategy:
    return valid_ids(allow_null=False)


# equality ---------------------------------------------------------------------------------------


def jeq(a: Any, b: Any) -> bool:
    """Type-aware deep equality of JSON values: bool / int / float never equal across types;
    tuples equal lists (the only normalisation JSON encoding performs)."""
    if isinstance(a, bool) or isinstance(b, bool):
        return isinstance(a, bool) and isinstance(b, bool) and a == b
    if isinstance(a, int) and isinstance(b, int):
        return a == b
    if isinstance(a, float) and isinstance(b, float):
        if a == b:
            return math.copysign(1.0, a) == math.copysign(1.0, b)
        return False
    if isinstance(a, (int, float)) or isinstance(b, (int, float)):
        return False
    if a is None or b is None:
        return a is None and b is None
    if isinstance(a, str) and isinstance(b, str):
        return a == b
    if isinstance(a, (list, tuple)) and isinstance(b, (list, tuple)):
        return len(a) == len(b) and all(jeq(x, y) for x, y in zip(a, b))
    if isinstance(a, dict) and isinstance(b, dict):
        return a.keys() == b.keys() and all(jeq(v, b[k]) for k, v in a.items())
    # values outside JSON (what a custom decoder hands to methods, e.g. Decimal): same type and equal
    return type(a) is type(b) and bool(a == b)


# Python values a method may return that are JSON-encodable without being JSON values themselves (json.dumps writes non-string keys
# as strings and tuples as arrays).  A behaviour spec names one as {'$py': <name>}: (what the method returns, what arrives on the wire)
PY_FORMS = {
    'mixed-keys': ({1: 'one', 2: 'two', 'other': 'many'}, {'1': 'one', '2': 'two', 'other': 'many'}),
    'odd-keys': ({True: 'yes', None: 'nothing', 1.5: 'f'}, {'true': 'yes', 'null': 'nothing', '1.5': 'f'}),
    'tuple': ((1, 'a', (2, 3), {'k': (4,)}), [1, 'a', [2, 3], {'k': [4]}]),
}


def py_materialise(v: Any) -> Any:
    """the python object a scripted method returns for a behaviour value"""
    if isinstance(v, dict) and set(v) == {'$py'}:
        return copy.deepcopy(PY_FORMS[v['$py']][0])
    return copy.deepcopy(v)


def py_wire(v: Any) -> Any:
    """the JSON value that return value becomes"""
    if isinstance(v, dict) and set(v) == {'$py'}:
        return copy.deepcopy(PY_FORMS[v['$py']][1])
    return copy.deepcopy(v)


def jnorm(v: Any) -> Any:
    """What a value looks like after one JSON round trip (tuples -> lists)."""
    return json.loads(json.dumps(v))


def jtype(v: Any) -> str:
    if v is None:
        return 'null'
    if isinstance(v, bool):
        return 'bool'
    if isinstance(v, int):
        return 'int'
    if isinstance(v, float):
        return 'float'
    if isinstance(v, str):
        return 'str'
    if isinstance(v, (list, tuple)):
        return 'array'
    if isinstance(v, dict):
        return 'object'
    return type(v).__name__


def short(v: Any, n: int = 300) -> str:
    try:
        s = json.dumps(v, ensure_ascii=True, default=repr)
    except Exception:
        s = repr(v)
    return s if len(s) <= n else s[:n] + f'...(+{len(s) - n})'


# ---- cheap (single draw) strategies for hot paths ---------------------------------------------------
# Hypothesis costs ~40us per draw and ~2 ms for a recursive JSON value; the per-element generators of the
# dispatcher checks would otherwise be 50x more expensive than the code under test.

BIG_POOL = [int('7' * 50), -int('9' * 100), int('1' + '0' * 640), int('7' * 4299), -int('7' * 4299)]
ID_POOL = VALID_ID_EDGES + [4, 5, -2, 2**31, 'a', 'b', 'x' * 40, '\x00', '\n']


def cheap_value() -> st.SearchStrategy:
    return st.sampled_from(POOL + BIG_POOL)


def cheap_call_id() -> st.SearchStrategy:
    return st.sampled_from(ID_POOL)
