"""
Independent validity predicates for JSON-RPC 2.0 request / response / error documents.
Written from the JSON-RPC 2.0 specification and the property statements; does not import pjrpc.

Each ``*_problems`` function returns a list of reasons (empty = valid).
"""

from typing import Any, List


def is_int(v: Any) -> bool:
    return isinstance(v, int) and not isinstance(v, bool)


def id_ok(v: Any) -> bool:
    # pjrpc admits strings, integers and null (of the JSON numbers: integers only)
    return v is None or isinstance(v, str) or is_int(v)


def request_problems(v: Any) -> List[str]:
    if not isinstance(v, dict):
        return ['not-an-object']
    p = []
    if 'jsonrpc' not in v:
        p.append('jsonrpc-missing')
    elif not (isinstance(v['jsonrpc'], str) and v['jsonrpc'] == '2.0'):
        p.append('jsonrpc-wrong')
    if 'method' not in v:
        p.append('method-missing')
    elif not isinstance(v['method'], str):
        p.append('method-not-string')
    if 'params' in v and not isinstance(v['params'], (list, dict)):
        p.append('params-not-structured')
    if 'id' in v and not id_ok(v['id']):
        p.append('id-bad-type')
    return p


def error_problems(v: Any) -> List[str]:
    if not isinstance(v, dict):
        return ['error-not-an-object']
    p = []
    if 'code' not in v:
        p.append('code-missing')
    elif not is_int(v['code']):
        p.append('code-not-integer')
    if 'message' not in v:
        p.append('message-missing')
    elif not isinstance(v['message'], str):
        p.append('message-not-string')
    return p


def response_problems(v: Any) -> List[str]:
    """Problems that make a response object structurally invalid *for deserialisation* (C06).
    A missing id member is not listed by the property and is left undecided (see response_document)."""
    if not isinstance(v, dict):
        return ['not-an-object']
    p = []
    if 'jsonrpc' not in v:
        p.append('jsonrpc-missing')
    elif not (isinstance(v['jsonrpc'], str) and v['jsonrpc'] == '2.0'):
        p.append('jsonrpc-wrong')
    if 'id' in v and not id_ok(v['id']):
        p.append('id-bad-type')
    has_r, has_e = 'result' in v, 'error' in v
    if has_r and has_e:
        p.append('both-result-and-error')
    if not has_r and not has_e:
        p.append('neither-result-nor-error')
    if has_e:
        p.extend(error_problems(v['error']))
    return p


# --- strict documents, as they must appear on the wire (C01, C07) -------------------------------


def response_object_problems(v: Any) -> List[str]:
    if not isinstance(v, dict):
        return ['response-not-an-object']
    p = []
    extra = set(v) - {'jsonrpc', 'id', 'result', 'error'}
    if extra:
        p.append('unknown-members')
    if v.get('jsonrpc', None) != '2.0' or not isinstance(v.get('jsonrpc'), str):
        p.append('jsonrpc-not-2.0')
    if 'id' not in v:
        p.append('id-missing')
    else:
        i = v['id']
        if not (i is None or isinstance(i, str) or (isinstance(i, (int, float)) and not isinstance(i, bool))):
            p.append('id-bad-type')
        elif isinstance(i, float) and (i != i or i in (float('inf'), float('-inf'))):
            p.append('id-not-a-json-number')      # NaN / Infinity are not JSON numbers
    has_r, has_e = 'result' in v, 'error' in v
    if has_r == has_e:
        p.append('result-error-not-exactly-one')
    if has_e:
        e = v['error']
        if not isinstance(e, dict):
            p.append('error-not-an-object')
        else:
            if not is_int(e.get('code')):
                p.append('error-code-not-integer')
            if not isinstance(e.get('message'), str):
                p.append('error-message-not-string')
            if set(e) - {'code', 'message', 'data'}:
                p.append('error-unknown-members')
    return p


def response_document_problems(v: Any) -> List[str]:
    if isinstance(v, list):
        if not v:
            return ['empty-array']
        p = []
        for el in v:
            p.extend(response_object_problems(el))
        return p
    return response_object_problems(v)


def response_codes(v: Any) -> List[int]:
    """The error codes a well-formed response document carries: one per response object, 0 for success."""
    objs = v if isinstance(v, list) else [v]
    return [o['error']['code'] if 'error' in o else 0 for o in objs]


def request_object_problems(v: Any) -> List[str]:
    """A request object as a client must put it on the wire."""
    p = request_problems(v)
    if isinstance(v, dict):
        if set(v) - {'jsonrpc', 'id', 'method', 'params'}:
            p.append('unknown-members')
    return p


def request_document_problems(v: Any) -> List[str]:
    if isinstance(v, list):
        if not v:
            return ['empty-array']
        p = []
        for el in v:
            p.extend(request_object_problems(el))
        ids = [el.get('id') for el in v if isinstance(el, dict) and el.get('id') is not None]
        for i, a in enumerate(ids):
            for b in ids[i + 1:]:
                if type(a) is type(b) and a == b:
                    p.append('duplicate-id')
        return p
    return request_object_problems(v)
