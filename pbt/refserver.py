"""
Reference JSON-RPC 2.0 server: a pure function from (request text, registry spec, configuration) to the
expected response document and the expected method executions.  Does not import pjrpc.

For library-generated errors (-32700, -32600, -32601, -32602, -32000) only the code (and the id) is predicted:
their wording and data are implementation-defined.  Application errors (raised by methods) are predicted exactly.
"""

import copy
import json
from typing import Any, Dict, List, Optional, Tuple

from pbt import jsongen as jg
from pbt import methods as hm
from pbt import wellformed as wf

NOTHING = '<nothing>'


def lib_error(code: int, id: Any = None) -> Dict[str, Any]:
    return {'id': id, 'error': {'code': code}, 'lib': True}


def error_wire(e: Dict[str, Any], class_defaults: Dict[str, Tuple[int, str]]) -> Dict[str, Any]:
    """wire form of an error spec {'cls','code','message','data'} (same shape as checks/c05)"""
    dcode, dmsg = class_defaults.get(e['cls'], (None, None))
    w = {'code': e['code'] if e['code'] is not None else dcode, 'message': e['message'] if e['message'] is not None else dmsg}
    if 'absent' not in e['data']:
        w['data'] = e['data']['value']
    return w


CLASS_DEFAULTS = {
    'ParseError': (-32700, 'Parse error'), 'InvalidRequestError': (-32600, 'Invalid Request'),
    'MethodNotFoundError': (-32601, 'Method not found'), 'InvalidParamsError': (-32602, 'Invalid params'),
    'InternalError': (-32603, 'Internal error'), 'ServerError': (-32000, 'Server error'),
    'Custom2001': (2001, 'custom error 2001'), 'Custom2002': (2002, 'custom error 2002'), 'Custom2003': (2003, 'custom error 2003'),
    'Custom2004': (2004, 'custom error 2004'), 'Custom2005': (2005, 'custom error 2005'), 'Custom2006Refined': (2006, 'refined error 2006'), 'QuotaError': (2007, 'quota exceeded'), 'SrvRange': (-32050, 'server range error'), 'IndepA': (3001, 'independent error'), 'ZeroCode': (0, 'zero code error'), 'SharedA': (2101, 'shared registry 2101'),
}


class Element:
    """what the reference server decides for one valid request object"""

    __slots__ = ('id', 'outcome', 'payload', 'execution', 'klass')

    def __init__(self, id: Any, outcome: str, payload: Any, execution: Optional[Dict[str, Any]], klass: str):
        self.id = id
        self.outcome = outcome        # 'result' | 'app-error' | 'lib-error'
        self.payload = payload        # result value | error wire dict | code
        self.execution = execution    # {'method', 'args'} or None
        self.klass = klass            # class label for distribution counters

    def response(self) -> Optional[Dict[str, Any]]:
        if self.id is None:
            return None
        if self.outcome == 'result':
            return {'id': self.id, 'result': self.payload}
        if self.outcome == 'app-error':
            return {'id': self.id, 'error': self.payload, 'lib': False}
        return lib_error(self.payload, self.id)

    def code(self) -> int:
        if self.outcome == 'result':
            return 0
        if self.outcome == 'app-error':
            return self.payload['code']
        return self.payload


def bind(mspec: Dict[str, Any], params: Any) -> Optional[Dict[str, Any]]:
    """the arguments a direct Python call would bind (as JSON: tuples -> lists), or None if it cannot bind"""
    twin = hm.build_twin(mspec)
    try:
        if isinstance(params, list):
            bound = twin(*params)
        elif isinstance(params, dict):
            bound = twin(**params)
        else:
            bound = twin()
    except TypeError:
        return None
    return {k: (list(v) if isinstance(v, tuple) else v) for k, v in bound.items()}


def serve_element(req: Dict[str, Any], registry: List[Dict[str, Any]], behaviours: Dict[str, Any]) -> Element:
    rid = req.get('id')
    kind = 'call' if rid is not None else 'notification'
    mspec = next((m for m in registry if m['name'] == req['method']), None)
    if mspec is None:
        return Element(rid, 'lib-error', -32601, None, f'{kind}/unknown-method')
    if mspec.get('ctor_raises'):
        # a class based view whose constructor raises: the view is built before the parameters are looked at, the failure
        # happens outside any method body -> internal error, nothing runs
        return Element(rid, 'lib-error', -32603, None, f'{kind}/internal-error')
    bound = bind(mspec, req.get('params', []))
    if bound is None:
        return Element(rid, 'lib-error', -32602, None, f'{kind}/params-do-not-bind')
    # a method validated against a JSON schema that wants some parameters to be strings: a supplied value of another type is refused
    supplied = req.get('params', [])
    for pos, p in enumerate(q for q in mspec['params'] if not q.get('ctx')):
        if p['name'] in mspec.get('schema_strings', ()):
            given = (p['name'] in supplied) if isinstance(supplied, dict) else (isinstance(supplied, list) and pos < len(supplied))
            if given and not isinstance(bound[p['name']], str):
                return Element(rid, 'lib-error', -32602, None, f'{kind}/params-do-not-validate')
    execution = {'method': mspec['name'], 'args': bound}
    b = behaviours.get(mspec['name']) or mspec.get('behaviour') or {'kind': 'echo'}
    k = b['kind']
    if k == 'echo':
        return Element(rid, 'result', {'method': mspec['name'], 'args': copy.deepcopy(bound)}, execution, f'{kind}/succeeds')
    if k == 'return':
        return Element(rid, 'result', jg.py_wire(b['value']), execution, f'{kind}/succeeds')
    if k == 'raise_rpc':
        return Element(rid, 'app-error', error_wire(b['error'], CLASS_DEFAULTS), execution, f'{kind}/raises-protocol-error')
    if k == 'raise_exc':
        return Element(rid, 'lib-error', -32000, execution, f'{kind}/raises-exception')
    raise AssertionError(k)


def ids_duplicate(ids: List[Any]) -> bool:
    seen: List[Any] = []
    for i in ids:
        if i is None:
            continue
        if any(type(i) is type(s) and i == s for s in seen):
            return True
        seen.append(i)
    return False


class Expectation:
    __slots__ = ('doc', 'executions', 'codes', 'klass', 'elements', 'parsed', 'accepted_batch')

    def __init__(self, doc: Any, executions: List[Dict[str, Any]], codes: List[int], klass: str,
                 elements: Optional[List[Element]] = None, parsed: Any = None, accepted_batch: bool = False):
        self.doc = doc                  # NOTHING | response dict | list of response dicts
        self.executions = executions
        self.codes = codes
        self.klass = klass
        self.elements = elements or []
        self.parsed = parsed
        self.accepted_batch = accepted_batch


def tag_decimals(v: Any) -> Any:
    """what the application codec of pbt/codecs.py writes: Decimal -> 'decimal:<value>'"""
    import decimal
    if isinstance(v, decimal.Decimal):
        return f'decimal:{v}'
    if isinstance(v, (list, tuple)):
        return [tag_decimals(x) for x in v]
    if isinstance(v, dict):
        return {k: tag_decimals(x) for k, x in v.items()}
    return v


def expect(text: str, registry: List[Dict[str, Any]], behaviours: Optional[Dict[str, Any]] = None,
           max_batch_size: Optional[int] = None, codec: str = 'default') -> Expectation:
    """codec != 'default': the dispatcher is configured with the application codec of pbt/codecs.py - methods see floats as
    Decimal (the stdlib decoder with parse_float=Decimal is trusted) and the response document carries them as tagged strings"""
    if codec == 'default':
        return _expect(text, registry, behaviours, max_batch_size, json.loads)
    import decimal
    exp = _expect(text, registry, behaviours, max_batch_size, lambda t: json.loads(t, parse_float=decimal.Decimal))
    exp.doc = tag_decimals(exp.doc)
    return exp


def _expect(text: str, registry: List[Dict[str, Any]], behaviours: Optional[Dict[str, Any]], max_batch_size: Optional[int], loads: Any) -> Expectation:
    behaviours = behaviours or {}
    try:
        parsed = loads(text)
    except (ValueError, RecursionError):
        return Expectation(lib_error(-32700), [], [-32700], 'doc/not-json')
    if isinstance(parsed, list):
        if not parsed:
            return Expectation(lib_error(-32600), [], [-32600], 'doc/batch-rejected/empty', parsed=parsed)
        if any(wf.request_problems(el) for el in parsed):
            return Expectation(lib_error(-32600), [], [-32600], 'doc/batch-rejected/invalid-element', parsed=parsed)
        if ids_duplicate([el.get('id') for el in parsed]):
            return Expectation(lib_error(-32600), [], [-32600], 'doc/batch-rejected/duplicate-ids', parsed=parsed)
        if max_batch_size and len(parsed) > max_batch_size:
            return Expectation(lib_error(-32600), [], [-32600], 'doc/batch-rejected/too-large', parsed=parsed)
        elements = [serve_element(el, registry, behaviours) for el in parsed]
        responses = [r for r in (e.response() for e in elements) if r is not None]
        executions = [e.execution for e in elements if e.execution is not None]
        if not responses:
            return Expectation(NOTHING, executions, [], 'doc/batch-accepted/all-notifications', elements, parsed, True)
        return Expectation(responses, executions, [e.code() for e in elements if e.id is not None],
                           'doc/batch-accepted', elements, parsed, True)
    if wf.request_problems(parsed):
        klass = 'doc/invalid-request-object' if isinstance(parsed, dict) else 'doc/json-scalar'
        return Expectation(lib_error(-32600), [], [-32600], klass, parsed=parsed)
    el = serve_element(parsed, registry, behaviours)
    executions = [el.execution] if el.execution is not None else []
    r = el.response()
    if r is None:
        return Expectation(NOTHING, executions, [], 'doc/single-notification', [el], parsed)
    return Expectation(r, executions, [el.code()], 'doc/single-call', [el], parsed)


# ---- comparison ---------------------------------------------------------------------------------


def compare_response(exp: Dict[str, Any], got: Any, where: str) -> List[Tuple[str, str]]:
    """[(clause, detail)] for one response object"""
    out = []
    if not isinstance(got, dict):
        return [('response-not-object', f"{where}: {jg.short(got)}")]
    if 'id' not in got or not jg.jeq(got['id'], exp['id']):
        out.append(('id', f"{where}: id {jg.short(got.get('id', '<missing>'))} expected {jg.short(exp['id'])}"))
    if 'result' in exp:
        if 'error' in got or 'result' not in got:
            out.append(('expected-success', f"{where}: got {jg.short(got)} expected result {jg.short(exp['result'])}"))
        elif not jg.jeq(got['result'], exp['result']):
            out.append(('result', f"{where}: result {jg.short(got['result'])} expected {jg.short(exp['result'])}"))
        return out
    if 'error' not in got or 'result' in got or not isinstance(got['error'], dict):
        out.append(('expected-error', f"{where}: got {jg.short(got)} expected error {jg.short(exp['error'])}"))
        return out
    ge, ee = got['error'], exp['error']
    if not jg.jeq(ge.get('code'), ee['code']):
        out.append((f"code/{ee['code']}", f"{where}: code {jg.short(ge.get('code'))} expected {ee['code']}"))
        return out
    if exp.get('lib'):
        if not isinstance(ge.get('message'), str):
            out.append(('lib-error-message-not-string', f"{where}: {jg.short(ge)}"))
        return out
    if not jg.jeq(ge.get('message'), ee['message']):
        out.append(('app-error-message', f"{where}: message {jg.short(ge.get('message'))} expected {jg.short(ee['message'])}"))
    if 'data' in ee:
        if 'data' not in ge or not jg.jeq(ge['data'], ee['data']):
            out.append(('app-error-data', f"{where}: data {jg.short(ge.get('data', '<absent>'))} expected {jg.short(ee['data'])}"))
    elif 'data' in ge:
        out.append(('app-error-data-invented', f"{where}: data {jg.short(ge['data'])} expected absent"))
    return out


def compare_document(exp_doc: Any, got_doc: Any) -> List[Tuple[str, str]]:
    """got_doc: NOTHING or the parsed response text"""
    if exp_doc == NOTHING or got_doc == NOTHING:
        if not (isinstance(exp_doc, str) and isinstance(got_doc, str) and exp_doc == NOTHING and got_doc == NOTHING):
            return [('nothing-vs-response', f"expected {jg.short(exp_doc)} got {jg.short(got_doc)}")]
        return []
    if isinstance(exp_doc, list):
        if not isinstance(got_doc, list):
            return [('expected-array', f"got {jg.short(got_doc)} expected {len(exp_doc)} responses")]
        if len(got_doc) != len(exp_doc):
            return [('response-count', f"got {len(got_doc)} responses expected {len(exp_doc)}: {jg.short(got_doc)}")]
        out = []
        for n, (e, g) in enumerate(zip(exp_doc, got_doc)):
            out += compare_response(e, g, f"[{n}]")
        return out
    if isinstance(got_doc, list):
        return [('expected-single-object', f"got {jg.short(got_doc)}")]
    return compare_response(exp_doc, got_doc, "response")
