"""
Client-side harness: clients whose abstract transport method is scripted or looped back into a dispatcher,
retry-strategy builders, sleep capture, recording tracers, and the reference retry model (C09, C19).
"""

import asyncio
import contextlib
import json
import math
from types import SimpleNamespace
from typing import Any, Callable, Dict, List, Optional, Tuple

from pbt import methods as hm


# ---- exception lattice used by scripts -------------------------------------------------------------


class ExcE(Exception):
    pass


class ExcE2(ExcE):
    pass


class ExcF(Exception):
    pass


class ExcU(Exception):
    pass


class HarnessBaseExc(BaseException):
    pass


class TracerBug(Exception):
    pass


EXC = {'ExcE': ExcE, 'ExcE2': ExcE2, 'ExcF': ExcF, 'ExcU': ExcU, 'TimeoutError': TimeoutError, 'ConnectionError': ConnectionError,
       'HarnessBaseExc': HarnessBaseExc, 'CancelledError': asyncio.CancelledError, 'Exception': Exception, 'ValueError': ValueError,
       'KeyboardInterrupt': KeyboardInterrupt, 'SystemExit': SystemExit, 'GeneratorExit': GeneratorExit}


def _library_exceptions() -> None:
    # exceptions of the library itself, as a transport raises them (the shipped backends raise DeserializationError for an unexpected
    # content type) and as a retry strategy may list them - directly, through a base class or through a catch-all
    import pjrpc.common.exceptions as le
    EXC.update({'LibBaseError': le.BaseError, 'LibDeserializationError': le.DeserializationError, 'LibIdentityError': le.IdentityError})


_library_exceptions()


# ---- clients ----------------------------------------------------------------------------------------


def make_client(kind: str, transport: Callable[[str, bool, int], Any], **kwargs: Any):
    """kind: 'sync' | 'async'.  transport(text, is_notification, attempt_index) -> text | None | raises"""
    from pjrpc.client import AbstractAsyncClient, AbstractClient

    if kind == 'sync':
        class Client(AbstractClient):
            def __init__(self, **kw: Any):
                super().__init__(**kw)
                self.sent: List[Tuple[str, bool]] = []
                self.request_kwargs: List[Dict[str, Any]] = []

            def _request(self, request_text: str, is_notification: bool = False, **kw: Any) -> Optional[str]:
                self.sent.append((request_text, is_notification))
                self.request_kwargs.append(kw)
                return transport(request_text, is_notification, len(self.sent) - 1)
    else:
        class Client(AbstractAsyncClient):  # type: ignore[no-redef]
            def __init__(self, **kw: Any):
                super().__init__(**kw)
                self.sent: List[Tuple[str, bool]] = []
                self.request_kwargs: List[Dict[str, Any]] = []

            async def _request(self, request_text: str, is_notification: bool = False, **kw: Any) -> Optional[str]:
                self.sent.append((request_text, is_notification))
                self.request_kwargs.append(kw)
                r = transport(request_text, is_notification, len(self.sent) - 1)
                if asyncio.iscoroutine(r):
                    r = await r
                return r
    return Client(**kwargs)


from pbt.codecs import CODECS  # noqa: E402,F401


def codec_kwargs(codec: str) -> Dict[str, Any]:
    from pbt import codecs
    return codecs.kwargs_for(codec, 'client')


def call(kind: str, fn: Callable[[], Any]) -> Any:
    """runs fn() (sync client) or awaits fn() (async client) and returns its value / raises its exception"""
    r = fn()
    if kind == 'async' or asyncio.iscoroutine(r):
        return hm.run_coro(r)
    return r


def loopback_transport(dispatcher_kind: str, dispatcher: Any, context: Any = None):
    def transport(text: str, is_notification: bool, attempt: int):
        if dispatcher_kind == 'sync':
            r = dispatcher.dispatch(text, context)
            return None if r is None else r[0]

        async def go():
            r = await dispatcher.dispatch(text, context)
            return None if r is None else r[0]
        try:
            asyncio.get_running_loop()
        except RuntimeError:
            return hm.run_coro(go())   # sync client -> async dispatcher
        return go()                    # async client awaits it
    return transport


# ---- sleeps --------------------------------------------------------------------------------------------


@contextlib.contextmanager
def captured_sleeps():
    """replaces time.sleep / asyncio.sleep as seen by pjrpc.client.retry; records ('sleep', delay)"""
    import pjrpc.client.retry as r
    from unittest import mock
    sleeps: List[float] = []

    def fake_sleep(delay: float) -> None:
        sleeps.append(delay)

    async def fake_async_sleep(delay: float, *a: Any, **k: Any) -> None:
        sleeps.append(delay)

    with contextlib.ExitStack() as stack:
        stack.enter_context(mock.patch.object(r.time, 'sleep', fake_sleep))
        stack.enter_context(mock.patch.object(r.asyncio, 'sleep', fake_async_sleep))
        # should the module ever bind the functions directly (from time import sleep / from asyncio import sleep as asleep ...)
        for name, obj in list(vars(r).items()):
            if getattr(obj, '__module__', None) == 'time' and getattr(obj, '__name__', '') == 'sleep':
                stack.enter_context(mock.patch.object(r, name, fake_sleep))
            elif getattr(obj, '__module__', '').startswith('asyncio') and getattr(obj, '__name__', '') == 'sleep':
                stack.enter_context(mock.patch.object(r, name, fake_async_sleep))
        yield sleeps


# ---- retry strategies -----------------------------------------------------------------------------------


class CyclicJitter:
    def __init__(self, values: List[float]):
        self.values = values or [0.0]
        self.i = 0

    def __call__(self) -> float:
        v = self.values[self.i % len(self.values)]
        self.i += 1
        return v


def build_backoff(b: Dict[str, Any], attempts: int, jitter: List[float]):
    from pjrpc.client import retry
    kw: Dict[str, Any] = {'attempts': attempts}
    if jitter:
        kw['jitter'] = CyclicJitter(list(jitter))
    if b['kind'] == 'periodic':
        return retry.PeriodicBackoff(interval=b['interval'], **kw)
    # 'max': 'default' - the cap is not passed at all: the documented defaults apply (exponential: no cap, Fibonacci: 1.0)
    if b['max'] != 'default':
        kw['max_value'] = b['max']
    if b['kind'] == 'exponential':
        return retry.ExponentialBackoff(base=b['base'], factor=b['factor'], **kw)
    return retry.FibonacciBackoff(multiplier=b['multiplier'], **kw)


def build_strategy(s: Dict[str, Any]):
    from pjrpc.client import retry
    return retry.RetryStrategy(
        backoff=build_backoff(s['backoff'], s['attempts'], s.get('jitter') or []),
        codes=None if s['codes'] is None else set(s['codes']),
        exceptions=None if s['exceptions'] is None else {EXC[n] for n in s['exceptions']},
    )


def model_delays(s: Dict[str, Any]) -> List[float]:
    """the property's formulae: periodic interval; exponential base*factor^k; Fibonacci multiplier*fib(k), fib = 1,2,3,5,8..;
    each plus jitter, capped by the maximum"""
    b, n = s['backoff'], s['attempts']
    jit = s.get('jitter') or [0.0]
    out = []
    fib = [1, 2]
    while len(fib) < n + 2:
        fib.append(fib[-1] + fib[-2])
    cap = b.get('max')
    if cap == 'default':
        cap = None if b['kind'] == 'exponential' else 1.0
    for k in range(n):
        j = jit[k % len(jit)]
        if b['kind'] == 'periodic':
            v = b['interval'] + j
        elif b['kind'] == 'exponential':
            v = b['base'] * (b['factor'] ** k) + j
            if cap is not None:
                v = min(cap, v)
        else:
            v = b['multiplier'] * fib[k] + j
            if cap is not None:
                v = min(cap, v)
        out.append(v)
    return out


def outcome_retryable(outcome: Dict[str, Any], s: Optional[Dict[str, Any]], request_kind: str) -> bool:
    if s is None:
        return False
    k = outcome['kind']
    if k == 'code':
        # element-level errors inside a batch array do not make the batch response an error
        return request_kind == 'single' and bool(s['codes']) and outcome['code'] in s['codes']
    if k == 'batch_code':
        return request_kind != 'notification' and bool(s['codes']) and outcome['code'] in s['codes']
    if k == 'exc':
        return bool(s['exceptions']) and any(issubclass(EXC[outcome['exc']], EXC[n]) for n in s['exceptions'])
    return False


def retry_model(s: Optional[Dict[str, Any]], outcomes: List[Dict[str, Any]], request_kind: str) -> Tuple[int, List[float], int]:
    """-> (number of sends, sleeps, index of the final outcome)"""
    delays = model_delays(s) if s is not None else []
    sleeps: List[float] = []
    k = 0
    while True:
        o = outcomes[min(k, len(outcomes) - 1)]
        if outcome_retryable(o, s, request_kind) and len(sleeps) < len(delays):
            sleeps.append(delays[len(sleeps)])
            k += 1
            continue
        return k + 1, sleeps, k


def close(a: float, b: float) -> bool:
    return math.isclose(a, b, rel_tol=1e-9, abs_tol=1e-12)


# ---- tracers ---------------------------------------------------------------------------------------------


def make_tracers(n: int, log: List[List[Any]], style: str = 'full'):
    """recording tracers.  style: 'full' - all three hooks overridden; 'super' - all three overridden AND each calls the base class
    implementation (the usual cooperative style); 'partial' - only begin / end overridden, on_error inherited from the library's Tracer"""
    from pjrpc.client.tracer import Tracer

    class Rec(Tracer):
        def __init__(self, idx: int):
            self.idx = idx

        def on_request_begin(self, trace_context, request):
            log.append(['begin', self.idx, id(trace_context), trace_context, request, None])
            if style == 'super':
                super().on_request_begin(trace_context, request)

        def on_request_end(self, trace_context, request, response):
            log.append(['end', self.idx, id(trace_context), trace_context, request, response])
            if style == 'super':
                super().on_request_end(trace_context, request, response)

    class RecAll(Rec):
        def on_error(self, trace_context, request, error):
            log.append(['error', self.idx, id(trace_context), trace_context, request, error])
            if style == 'super':
                super().on_error(trace_context, request, error)

    if style == 'instance-hooks':
        # plain Tracer() objects whose hooks were attached to the INSTANCE (tracer.on_request_end = callback, mock.patch.object ...)
        out = []
        for i in range(n):
            t = Tracer()
            t.on_request_begin = lambda tc, rq, i=i: log.append(['begin', i, id(tc), tc, rq, None])               # type: ignore[method-assign]
            t.on_request_end = lambda tc, rq, rs, i=i: log.append(['end', i, id(tc), tc, rq, rs])                  # type: ignore[method-assign]
            t.on_error = lambda tc, rq, er, i=i: log.append(['error', i, id(tc), tc, rq, er])                      # type: ignore[method-assign]
            out.append(t)
        return out
    if style == 'end-raises':
        # a tracer with a bug of its own: the FIRST tracer's on_request_end raises after recording (differential checks only: what
        # happens next is not specified, but it must be the same on both client halves)
        class RecEndRaises(RecAll):
            def on_request_end(self, trace_context, request, response):
                super().on_request_end(trace_context, request, response)
                if self.idx == 0:
                    raise TracerBug('on_request_end failed')
        return [RecEndRaises(i) for i in range(n)]
    if style == 'logging-subclass-last' and n:
        # the LAST configured tracer extends the library's LoggingTracer (an application adding its own bookkeeping to it): it records and
        # then lets the library class log; its place in the configuration is the last one
        from pjrpc.client.tracer import LoggingTracer

        class RecLogging(LoggingTracer):
            def __init__(self, idx: int):
                super().__init__()
                self.idx = idx

            def on_request_begin(self, trace_context, request):
                log.append(['begin', self.idx, id(trace_context), trace_context, request, None])
                super().on_request_begin(trace_context, request)

            def on_request_end(self, trace_context, request, response):
                log.append(['end', self.idx, id(trace_context), trace_context, request, response])
                super().on_request_end(trace_context, request, response)

            def on_error(self, trace_context, request, error):
                log.append(['error', self.idx, id(trace_context), trace_context, request, error])
                super().on_error(trace_context, request, error)
        return [RecAll(i) for i in range(n - 1)] + [RecLogging(n - 1)]
    return [(Rec if style == 'partial' else RecAll)(i) for i in range(n)]
