"""
Custom JSON-RPC error classes used by the harness.  Defined ONCE, at import: creating a JsonRpcError
subclass with a code mutates pjrpc's process-global code -> class registry.
"""

from typing import Dict, Type

from pjrpc.common import exceptions as exc


class Custom2001(exc.JsonRpcError):
    code = 2001
    message = 'custom error 2001'


class Custom2002(exc.JsonRpcError):
    code = 2002
    message = 'custom error 2002'


class Custom2003(exc.ClientError):
    code = 2003
    message = 'custom error 2003'


class Custom2004(Custom2001):
    code = 2004
    message = 'custom error 2004'


class SrvRange(exc.JsonRpcError):
    code = -32050
    message = 'server range error'


class ZeroCode(exc.JsonRpcError):
    """a typed error whose code is falsy"""
    code = 0
    message = 'zero code error'


class PlainBase(exc.JsonRpcError):
    """a client-side base class without a code of its own and without lookup override"""


class CodedBase(exc.JsonRpcError):
    """a client-side base class that also has a code of its own (a service's generic error): codes without a registered class
    deserialise to it, registered codes to their classes"""
    code = 5000
    message = 'service error'


class IndepBase(exc.JsonRpcError):
    """the 'independent clients errors' recipe of docs/source/pjrpc/errors.rst"""

    @classmethod
    def get_error_cls(cls, code, default):
        return next(iter((c for c in cls.__subclasses__() if getattr(c, 'code', None) == code)), default)


class IndepA(IndepBase):
    code = 3001
    message = 'independent error'


class OwnRegistryMeta(exc.JsonRpcErrorMeta):
    """a sub-metaclass with a registry of its own: the classes of this hierarchy are looked up (and registered) there and nowhere else
    (the library reads `type(cls).__errors_mapping__`), so a service's codes may overlap with the global ones"""
    __errors_mapping__: Dict[int, type] = {}


class MetaBase(exc.JsonRpcError, metaclass=OwnRegistryMeta):
    pass


class MetaA(MetaBase):
    code = 2001            # overlaps with the globally registered Custom2001
    message = 'own registry 2001'


class MetaB(MetaBase):
    code = 7
    message = 'own registry 7'


class SharedRegistryMeta(exc.JsonRpcErrorMeta):
    """a sub-metaclass WITHOUT a registry of its own (an application combining the library's metaclass with another one, or adding
    class-creation hooks): its classes are registered in - and resolved through - the global registry like everybody else's"""


class SharedBase(exc.JsonRpcError, metaclass=SharedRegistryMeta):
    pass


class SharedA(SharedBase):
    code = 2101
    message = 'shared registry 2101'


class Replaced2005(exc.JsonRpcError):
    """registered for code 2005 first ..."""
    code = 2005
    message = 'first class registered for 2005'


class Custom2005(exc.JsonRpcError):
    """... and replaced by this later registration for the same code (an application overriding a class, e.g. its own ServerError
    subclass): a code has one registered class, the one registered last"""
    code = 2005
    message = 'custom error 2005'


class QuotaError(exc.JsonRpcError):
    """an application error with a constructor of its own (not the (code, message, data) one); it has no class-level code, so it is
    not a registered class - methods raise it, callers see code 2007"""

    def __init__(self, limit: int):
        super().__init__(code=2007, message='quota exceeded', data={'limit': limit})
        self.limit = limit


class Custom2006(exc.JsonRpcError):
    code = 2006
    message = 'custom error 2006'


class Custom2006Refined(Custom2006):
    """a typed error that INHERITS its code and only refines the message: it is a registration for that code like any other
    (the class a raised Custom2006Refined reaches the caller as)"""
    message = 'refined error 2006'


class CodeOnly2008(exc.JsonRpcError):
    """a typed error that declares ONLY its code: the message is given where it is raised (`raise CodeOnly2008(message=...)`); it is a
    registration for its code like any other"""
    code = 2008


class CodeOnlyChild2009(Custom2001):
    """only the code is declared here, the message is inherited from a typed parent"""
    code = 2009


# the harness' own model of the global registry (not read from pjrpc)
GLOBAL: Dict[int, Type[exc.JsonRpcError]] = {
    -32700: exc.ParseError, -32600: exc.InvalidRequestError, -32601: exc.MethodNotFoundError,
    -32602: exc.InvalidParamsError, -32603: exc.InternalError, -32000: exc.ServerError,
    2001: Custom2001, 2002: Custom2002, 2003: Custom2003, 2004: Custom2004, 2005: Custom2005, 2006: Custom2006Refined, -32050: SrvRange, 3001: IndepA, 0: ZeroCode, 5000: CodedBase, 2101: SharedA, 2008: CodeOnly2008, 2009: CodeOnlyChild2009,
}

BY_NAME: Dict[str, Type[exc.JsonRpcError]] = {
    'JsonRpcError': exc.JsonRpcError, 'ParseError': exc.ParseError, 'InvalidRequestError': exc.InvalidRequestError,
    'MethodNotFoundError': exc.MethodNotFoundError, 'InvalidParamsError': exc.InvalidParamsError,
    'InternalError': exc.InternalError, 'ServerError': exc.ServerError, 'Custom2001': Custom2001, 'Custom2002': Custom2002,
    'Custom2003': Custom2003, 'Custom2004': Custom2004, 'Custom2005': Custom2005, 'Custom2006Refined': Custom2006Refined, 'QuotaError': QuotaError, 'SrvRange': SrvRange, 'PlainBase': PlainBase, 'CodedBase': CodedBase, 'IndepBase': IndepBase,
    'IndepA': IndepA, 'ZeroCode': ZeroCode, 'MetaBase': MetaBase, 'SharedBase': SharedBase, 'SharedA': SharedA, 'CodeOnly2008': CodeOnly2008, 'CodeOnlyChild2009': CodeOnlyChild2009,
}

TYPED = ['ParseError', 'InvalidRequestError', 'MethodNotFoundError', 'InvalidParamsError', 'InternalError', 'ServerError',
         'Custom2001', 'Custom2002', 'Custom2003', 'Custom2004', 'Custom2005', 'Custom2006Refined', 'SrvRange', 'IndepA', 'ZeroCode', 'SharedA', 'CodeOnlyChild2009']
REGISTERED_CODES = sorted(GLOBAL)


def expected_class(code: int, error_cls_name: str = 'JsonRpcError') -> Type[exc.JsonRpcError]:
    base = BY_NAME[error_cls_name]
    if error_cls_name == 'IndepBase':
        return IndepA if code == 3001 else IndepBase
    if error_cls_name == 'MetaBase':
        return {2001: MetaA, 7: MetaB}.get(code, MetaBase)
    return GLOBAL.get(code, base)
