"""Cached aiohttp / flask / werkzeug JSON-RPC apps and a uniform ``post`` function (C18)."""

import os
from typing import Any, Callable, Dict, List, Optional, Tuple

from pbt import methods as hm, stdreg

STATUS_FUNCS: Dict[str, Callable[[Tuple[int, ...]], int]] = {
    'default': None,  # type: ignore[dict-item]   (the integration's own default)
    'any-error-500': lambda codes: 500 if any(codes) else 200,
    'invalid-request-400': lambda codes: 400 if codes and codes[0] == -32600 else 200,
    'count': lambda codes: 250 + min(len(codes), 6),   # not 204 / 205 / 304: those replies carry no body
    'parse-error-418': lambda codes: 418 if -32700 in codes else 202,
    # not a pure function of the codes: it consults a table the application updates while it is serving
    'table': lambda codes: STATUS_TABLE['error' if any(codes) else 'ok'],
}
STATUS_TABLE: Dict[str, int] = {'error': 500, 'ok': 200}

def sub_status(status: str) -> str:
    """the status function of a mounted JSON-RPC sub-application: always another one than the outer application's"""
    return 'count' if status != 'count' else 'any-error-500'


def codec_kwargs(codec: str) -> Dict[str, Any]:
    """'custom': application JSON encoder / decoder classes on the integration (see pbt/codecs.py)"""
    from pbt import codecs
    return codecs.kwargs_for('classes' if codec == 'custom' else codec, 'server')


def bare_dispatcher(kind: str, which: str, codec: str):
    """a dispatcher outside any integration, configured the same way (the reference for 'exactly the dispatcher's response document')"""
    import pjrpc.server
    key = ('bare', kind, which, codec, os.getpid())
    if key not in _APPS:
        d = (pjrpc.server.AsyncDispatcher if kind == 'async' else pjrpc.server.Dispatcher)(**codec_kwargs(codec))
        d.add_methods(_registry(kind, which))
        _APPS[key] = d
    return _APPS[key]


_APPS: Dict[Any, Any] = {}
_CLIENTS: List[Any] = []
PREFIX = '/sub'


def where_method(which: str, kind: str):
    return {'name': f'where_{which}', 'params': [stdreg.P('x', default=None)], 'flavour': 'coro' if kind == 'async' else 'func', 'ctx': 'none'}


def _registry(kind: str, which: str = 'base'):
    """the standard registry plus one method that exists only on this endpoint (so endpoints are distinguishable)"""
    import pjrpc.server
    reg = pjrpc.server.MethodRegistry()
    for m in stdreg.std_registry(kind) + [where_method(which, kind)]:
        hm.register(reg, m)
    return reg


def get_app(integration: str, status: str, base: str, codec: str = 'default', prefix_style: str = 'plain', nested: bool = False):
    """returns (post(path_kind, body, content_type) -> (status, content_type, body bytes), dispatcher_for(path_kind))"""
    # nested: the extra endpoint lives on an aiohttp sub-application / a flask blueprint (documented add_endpoint arguments)
    key = (integration, status, base, codec, prefix_style, nested, os.getpid())
    # the extra endpoint is registered as '/sub', as '/sub/' or as 'sub' (prefixes are joined to the base path by exactly one slash, so
    # all of them serve <base>/sub)
    reg_prefix = PREFIX + '/' if prefix_style == 'trailing-slash' else PREFIX.lstrip('/') if prefix_style == 'no-leading-slash' else PREFIX
    if key in _APPS:
        return _APPS[key]
    fn = STATUS_FUNCS[status]
    kw = {} if fn is None else {'status_by_error': fn}
    ckw = codec_kwargs(codec)
    kw.update(ckw)
    if integration == 'aiohttp':
        from aiohttp import web
        from aiohttp.test_utils import TestClient, TestServer
        from pjrpc.server.integration import aiohttp as integ
        rpc = integ.Application(base, **kw)
        rpc.dispatcher.add_methods(_registry('async'))
        if nested == 'app':
            # the extra endpoint is a JSON-RPC application of its own (with its OWN status function) mounted through add_subapp()
            subrpc = integ.Application('', status_by_error=STATUS_FUNCS[sub_status(status)], **ckw)
            rpc.add_subapp(reg_prefix, subrpc)
            sub = subrpc.dispatcher
        else:
            sub = rpc.add_endpoint(reg_prefix, **({'subapp': web.Application()} if nested else {}), **ckw)
        sub.add_methods(_registry('async', 'sub'))
        # a second, unrelated integration object of the same process (another API version): it serves nothing here
        decoy = integ.Application('/decoy')
        decoy.add_endpoint(PREFIX)

        async def start():
            client = TestClient(TestServer(rpc.app))
            await client.start_server()
            return client
        client = hm.run_coro(start())
        _CLIENTS.append(client)

        def post(path_kind: str, body: bytes, content_type: Optional[str]):
            path = (base or '/') if path_kind == 'base' else base + PREFIX

            async def go():
                headers = {} if content_type is None else {'Content-Type': content_type}
                skip = ['Content-Type'] if content_type is None else None
                async with client.post(path, data=body, headers=headers, skip_auto_headers=skip) as resp:
                    return resp.status, resp.headers.get('Content-Type'), await resp.read()
            return hm.run_coro(go())

        def dispatcher_for(path_kind: str):
            return 'async', (rpc.dispatcher if path_kind == 'base' else sub)
    elif integration == 'flask':
        import flask
        from pjrpc.server.integration import flask as integ
        app = flask.Flask(f'c18_{status}_{len(_APPS)}')
        rpc = integ.JsonRPC(base or '/', **kw)
        rpc.dispatcher.add_methods(_registry('sync'))
        sub = rpc.add_endpoint(reg_prefix, **({'blueprint': flask.Blueprint(f'bp_{len(_APPS)}', __name__)} if nested else {}), **ckw)
        sub.add_methods(_registry('sync', 'sub'))
        # a second, unrelated extension object created BEFORE the first one is bound to the app (one object per API version + an
        # app factory): it has no methods, so a request routed to it would be answered -32601
        decoy = integ.JsonRPC('/decoy')
        decoy.add_endpoint(PREFIX)
        rpc.init_app(app)
        decoy.init_app(app)
        client = app.test_client()

        def post(path_kind: str, body: bytes, content_type: Optional[str]):
            path = (base or '/') if path_kind == 'base' else base + PREFIX
            headers = {} if content_type is None else {'Content-Type': content_type}
            resp = client.post(path, data=body, headers=headers)
            return resp.status_code, resp.headers.get('Content-Type'), resp.get_data()

        def dispatcher_for(path_kind: str):
            return 'sync', (rpc.dispatcher if path_kind == 'base' else sub)
    else:
        import werkzeug.test
        from pjrpc.server.integration import werkzeug as integ
        rpc = integ.JsonRPC(base, **ckw)
        rpc.dispatcher.add_methods(_registry('sync'))
        integ.JsonRPC('/decoy')      # an unrelated second object
        client = werkzeug.test.Client(rpc)

        def post(path_kind: str, body: bytes, content_type: Optional[str]):
            headers = {} if content_type is None else {'Content-Type': content_type}
            resp = client.post(base or '/', data=body, headers=headers)
            return resp.status_code, resp.headers.get('Content-Type'), resp.get_data()

        def dispatcher_for(path_kind: str):
            return 'sync', rpc.dispatcher
    _APPS[key] = (post, dispatcher_for)
    return _APPS[key]


def _close_all() -> None:
    for c in _CLIENTS:
        try:
            hm.run_coro(c.close())
        except Exception:
            pass
    del _CLIENTS[:]


import atexit  # noqa: E402

atexit.register(_close_all)
