"""
Request-document strategies (relative to a registry spec), the text renderer and the manglers.
A *text spec* is JSON:  {'raw': str}  or  {'doc': json, 'ascii': bool, 'indent': 0|1, 'pad': str, 'huge': digits|None,
'mangle': None | {'kind': ..., ...}}.   render(textspec) -> the request text.  No pjrpc import.
"""

import json
from typing import Any, Dict, List, Optional

from hypothesis import strategies as st

from pbt import jsongen as jg

PLACEHOLDER = 987650123456789      # replaced by a huge integer literal at render time
MEMBER_ALPHA: List[Any] = [None, True, False, 0, 1, -1, 1.0, 1.5, '', '2.0', 'x', [], [1], {}, {'a': 1}, '1.0', '2', 2.0, 2, '2.', '.0', '0', '.', '2.00', ' 2.0']


def render(ts: Dict[str, Any]) -> str:
    if 'raw' in ts:
        return ts['raw']
    kw: Dict[str, Any] = {'ensure_ascii': ts.get('ascii', True)}
    if ts.get('indent'):
        kw['indent'] = 1
    text = json.dumps(ts['doc'], **kw)
    if ts.get('huge'):
        # 'huge': an integer literal of that many digits; 'overflow': a float literal beyond the double range (parsed as inf)
        text = text.replace(str(PLACEHOLDER), '7' * ts['huge'] if ts['huge'] != 'overflow' else '1e400')
    pad = ts.get('pad', '')
    text = pad + text + pad
    m = ts.get('mangle')
    if m:
        k = m['kind']
        if k == 'truncate':
            text = text[: max(0, int(len(text) * m['at'] / 100))]
        elif k == 'append':
            text = text + m['what']
        elif k == 'prepend':
            text = m['what'] + text
        elif k == 'single-quotes':
            text = text.replace('"', "'")
        elif k == 'trailing-comma':
            text = text.rstrip()
            text = text[:-1] + ',' + text[-1] if text else ','
        elif k == 'drop-char':
            i = int(len(text) * m['at'] / 100)
            text = text[:i] + text[i + 1:]
        elif k == 'unbalanced':
            text = '[' * m['n'] + text
    return text


def doc_depth(v: Any) -> int:
    d, stack = 0, [(v, 1)]
    while stack:
        x, n = stack.pop()
        if isinstance(x, (list, dict)):
            d = max(d, n)
            for y in (x.values() if isinstance(x, dict) else x):
                stack.append((y, n + 1))
    return d


# ---- elements -----------------------------------------------------------------------------------
# All strategies are built ONCE per registry (DocGen.__init__): constructing a Hypothesis strategy inside a
# composite costs far more than drawing from it.

_RAW_TEXTS = ['', ' ', '\n', 'null', 'nul', '{', '}', '[', ']', '[]', '{}', '[[]]', '[1,2', '{"jsonrpc":"2.0"', "{'a':1}", '\ufeff{}', '// c\n{}',
              'True', '01', '[,]', '{"a"}', '"unterminated', '\x00', '{"jsonrpc":"2.0","method":"echo","params":[1],"id":1,"id":2}',
              '{"jsonrpc":"2.0","method":"noargs","id":1}{"jsonrpc":"2.0","method":"noargs","id":2}',
              '[' * 64 + ']' * 64, '[' * 64, '{"a":' * 40 + '1' + '}' * 40, '1e999', '-', '0x10', '1.', '.5', '"\\ud800"', '"\\x"',
              '[{"jsonrpc":"2.0","method":"noargs","id":1},]', '{"jsonrpc":"2.0","method":"noargs","id":1,}', '[1 2]', '{"a" 1}', 'nulll',
              '"\t"', '\r\n{}\r\n', '{"jsonrpc": "2.0", "method": "echo", "params": [1], "id": 1e2}',
              # unpaired surrogates as characters of the text itself (a str can carry them; json.loads accepts them)
              '\x0c{"jsonrpc":"2.0","method":"noargs","id":1}\x0c', '\xa0[{"jsonrpc":"2.0","method":"noargs","id":1}]', '{"jsonrpc":"2.0","method":"noargs","id":1}\u2028',
              '{"jsonrpc":"2.0","method":"echo","params":["\ud800"],"id":1}', '{"jsonrpc":"2.0","method":"\udc00","id":"\udfff"}',
              '[{"jsonrpc":"2.0","method":"noargs","id":"\ud83d"}]', '\ud800', '"\udc00"', '{"jsonrpc":"2.0","method":"ret","id":1}\udc80']


def _near_misses(names: List[str]) -> List[str]:
    out = ['', 'nope', 'rpc.discover', '__init__', '_private']
    for n in names[:6]:
        out += [n[:-1], n + 'x', n.upper(), ' ' + n, n.split('.')[-1] if '.' in n else 'v.' + n]
    return [o for o in out if o not in names]


class DocGen:
    def __init__(self, registry: List[Dict[str, Any]], max_batch: int = 6, kinds: Optional[List[str]] = None,
                 flavours: Optional[List[str]] = None):
        self.registry = registry
        self.names = [m['name'] for m in registry]
        self.by_name = {m['name']: m for m in registry}
        self.max_batch = max_batch
        self.s_val = jg.cheap_value()
        self.s_id = jg.cheap_call_id()
        self.s_flavour = st.sampled_from(flavours or (['valid'] * 6 + ['unknown-method', 'deviant', 'deviant', 'non-object']))
        self.s_nonobj = st.sampled_from(jg.SCALAR_POOL + [[], [1]])
        self.s_name = st.sampled_from(self.names + [n for n in self.names if n in ('ret', 'rpc_err', 'boom', 'echo')])
        self.s_miss = st.sampled_from(_near_misses(self.names))
        self.s_shape = st.sampled_from(['absent', 'list', 'list', 'dict', 'dict', 'dict', 'exact-list', 'exact-dict', 'exact-dict', 'bad'])
        self.s_badparams = st.sampled_from([None, 1, 'x', True, 1.5, ''])
        self.s_idk = st.sampled_from(['call', 'call', 'call', 'notification', 'null'])
        self.s_member = st.sampled_from(['jsonrpc', 'id', 'method', 'params', 'extra', 'drop'])
        self.s_extra = st.sampled_from(['extra', 'result', 'error', 'Id', 'meta', 'auth', 'trace'])
        self.s_ndev = st.sampled_from([1, 1, 2, 3])
        self.s_drop = st.sampled_from(['jsonrpc', 'method', 'id', 'params'])
        self.s_alpha = st.sampled_from(MEMBER_ALPHA)
        self.s_hugewhere = st.sampled_from(['id', 'param', 'nested', 'jsonrpc', 'method'])
        self.s_bits = st.integers(0, 255)
        self.s_len = st.integers(0, 5)
        self.s_bool = st.booleans()
        self.s_kind = st.sampled_from(kinds or (['single'] * 4 + ['batch'] * 5 + ['value', 'deep', 'huge', 'mangled', 'mangled', 'raw', 'long']))
        self.s_indent = st.sampled_from([0, 0, 1])
        # JSON whitespace is space, tab, LF, CR only; the other blanks python's str.strip() / str.isspace() know are NOT
        _json_ws = st.sampled_from(['', '', '', ' ', '\n\t ', '\r\n'])
        self.s_pad = jg.weighted(_json_ws, _json_ws, _json_ws, _json_ws, _json_ws, _json_ws, _json_ws,
                                 st.sampled_from(['\x0c', '\xa0', '\u2028', '\x0b', '\x1c', '\x85', '\u3000', '\ufeff']))
        self.s_raw = st.one_of(st.sampled_from(_RAW_TEXTS), st.sampled_from(_RAW_TEXTS), st.text(max_size=20))
        self.s_anyval = st.one_of(jg.cheap_value(), jg.cheap_value(), jg.json_value(6))
        self.s_depth = st.sampled_from([8, 31, 32, 48, 62])
        self.s_inner = st.sampled_from([1, None, 'x'])
        self.s_nshape = st.sampled_from(['list', 'dict', 'mixed'])
        self.s_where = st.sampled_from(['params-list', 'params-dict', 'doc'])
        self.s_hugedigits = st.sampled_from([4300, 4301, 10000, 'overflow'])
        self.s_nbatch0 = st.integers(0, max_batch)
        self.s_nbatch1 = st.integers(1, max_batch)
        self.s_nlong = st.sampled_from([10, 11, 12, 13, 17, 33])   # 'long' batches: positions with two digits
        self.s_dup = st.integers(0, 3)
        self.s_pos = st.integers(0, max_batch - 1)
        self.s_pair = st.sampled_from([(1, 1), ('1', '1'), (1, '1'), (0, 0), ('', ''), (0, ''), (-1, -1)])
        self.s_mangle = st.one_of(
            st.builds(lambda at: {'kind': 'truncate', 'at': at}, st.integers(0, 99)),
            st.builds(lambda w: {'kind': 'append', 'what': w}, st.sampled_from([',', '}', ']', ' x', '//', '\x00', '{}', '[]'])),
            st.builds(lambda w: {'kind': 'prepend', 'what': w}, st.sampled_from(['\ufeff', ',', '/*c*/', 'x'])),
            st.just({'kind': 'single-quotes'}), st.just({'kind': 'trailing-comma'}),
            st.builds(lambda at: {'kind': 'drop-char', 'at': at}, st.integers(0, 99)),
            st.builds(lambda n: {'kind': 'unbalanced', 'n': n}, st.sampled_from([1, 2, 63])),
        )
        self.element = st.composite(lambda draw, huge=False: self._element(draw, huge))
        self.document = st.composite(lambda draw: self._document(draw))()

    def _params(self, draw, mspec: Optional[Dict[str, Any]], clean: bool = False):
        shape = draw(self.s_shape)
        if clean and shape == 'bad':
            shape = 'exact-dict'
        if shape == 'absent':
            return {'absent': True}
        if shape == 'bad':
            return {'value': draw(self.s_badparams)}
        ps = [p for p in (mspec['params'] if mspec else []) if not p.get('ctx')]
        names = [p['name'] for p in ps]
        ctx = [p['name'] for p in (mspec['params'] if mspec else []) if p.get('ctx')]
        required = [p['name'] for p in ps if 'default' not in p and p['kind'] in ('PO', 'PK', 'KO')]
        if shape == 'exact-list':
            npos = len([p for p in ps if p['kind'] in ('PO', 'PK')])
            lo = min(npos, len(required))
            n = lo + (draw(self.s_len) % (npos - lo + 1))
            return {'value': [draw(self.s_val) for _ in range(n)]}
        bits = draw(self.s_bits)
        if shape == 'exact-dict':
            optional = [n for n in names if n not in required]
            chosen = required + [n for i, n in enumerate(optional) if bits >> i & 1]
            return {'value': {k: draw(self.s_val) for k in chosen}}
        if shape == 'list':
            return {'value': [draw(self.s_val) for _ in range(draw(self.s_len))]}
        pool = names + ['zz'] + ctx + ['context', 'self']
        chosen = [n for i, n in enumerate(pool) if bits >> i & 1][:5]
        return {'value': {k: draw(self.s_val) for k in chosen}}

    def _element(self, draw, huge: bool = False, clean: bool = False):
        """one batch element / single request: mostly a valid request object aimed at a registered method;
        clean: a well-formed request object (so that the batch around it is served element by element)"""
        flavour = draw(self.s_flavour)
        if clean and flavour in ('deviant', 'non-object'):
            flavour = 'valid'
        if flavour == 'non-object':
            return draw(self.s_nonobj)
        el: Dict[str, Any] = {'jsonrpc': '2.0'}
        if flavour == 'unknown-method':
            el['method'] = draw(self.s_miss)
            mspec = None
        else:
            name = draw(self.s_name)
            el['method'] = name
            mspec = self.by_name[name]
        p = self._params(draw, mspec, clean)
        if 'absent' not in p:
            el['params'] = p['value']
        idk = draw(self.s_idk)
        if idk == 'call':
            el['id'] = draw(self.s_id)
        elif idk == 'null':
            el['id'] = None
        if flavour == 'deviant':
            # one to three deviations on the same object: several extension members, an extension member next to a
            # mistyped or missing standard one, ...
            for _ in range(draw(self.s_ndev)):
                member = draw(self.s_member)
                if member == 'extra':
                    el[draw(self.s_extra)] = draw(self.s_val)
                elif member == 'drop':
                    el.pop(draw(self.s_drop), None)
                else:
                    el[member] = draw(self.s_alpha)
        if huge:
            where = draw(self.s_hugewhere)
            if where == 'id':
                el['id'] = PLACEHOLDER
            elif where == 'param':
                el['params'] = [PLACEHOLDER]
            elif where == 'nested':
                el['params'] = {'a': {'deep': [1, {'x': PLACEHOLDER}]}}
            else:
                el[where] = PLACEHOLDER
        return el

    def _document(self, draw):
        """returns a text spec"""
        kind = draw(self.s_kind)
        ts: Dict[str, Any] = {'ascii': draw(self.s_bool), 'indent': draw(self.s_indent), 'pad': draw(self.s_pad), 'huge': None, 'mangle': None}
        if kind == 'raw':
            return {'raw': draw(self.s_raw)}
        if kind == 'value':
            ts['doc'] = draw(self.s_anyval)
            return ts
        if kind == 'deep':
            nest = jg.nested(draw(self.s_depth), draw(self.s_inner), draw(self.s_nshape))
            where = draw(self.s_where)
            if where == 'doc':
                ts['doc'] = nest if isinstance(nest, list) else [nest]
            else:
                ts['doc'] = {'jsonrpc': '2.0', 'id': draw(self.s_id), 'method': draw(self.s_name),
                             'params': [nest] if where == 'params-list' else {'a': nest}}
            return ts
        huge = kind == 'huge'
        if huge:
            ts['huge'] = draw(self.s_hugedigits)
        if kind in ('single', 'huge', 'mangled') and draw(self.s_bool):
            ts['doc'] = self._element(draw, ts['huge'] if huge else False)
        else:
            n = draw(self.s_nlong) if kind == 'long' else draw(self.s_nbatch0 if kind == 'batch' else self.s_nbatch1)
            # half of the batches consist of well-formed request objects with distinct ids only: one malformed element or a repeated
            # id has the whole batch refused, and then nothing of what the other elements ask for is exercised
            clean = True if kind == 'long' else draw(self.s_bool)
            els = [self._element(draw, (ts['huge'] if huge else False) if i == 0 else False, clean) for i in range(n)]
            if clean:
                seen: List[Any] = []
                for el in els:
                    if 'id' in el and el['id'] is not None:
                        while any(type(el['id']) is type(s) and el['id'] == s for s in seen):
                            el['id'] = el['id'] + 1 if isinstance(el['id'], int) else el['id'] + '_'
                        seen.append(el['id'])
            elif n >= 2 and draw(self.s_dup) == 0:
                # duplicate ids at a chosen pair of positions: same value, or "1" next to 1 (not a duplicate)
                i, j = draw(self.s_pos) % n, draw(self.s_pos) % n
                if i != j and isinstance(els[i], dict) and isinstance(els[j], dict):
                    pair = draw(self.s_pair)
                    els[min(i, j)]['id'], els[max(i, j)]['id'] = pair
            ts['doc'] = els
        if kind == 'mangled':
            ts['mangle'] = draw(self.s_mangle)
        return ts


_GENS: Dict[str, DocGen] = {}


def docgen(registry: List[Dict[str, Any]], max_batch: int = 6, kinds: Optional[List[str]] = None,
           flavours: Optional[List[str]] = None) -> DocGen:
    key = json.dumps([registry, max_batch, kinds, flavours], sort_keys=True, default=repr)
    g = _GENS.get(key)
    if g is None:
        g = _GENS[key] = DocGen(registry, max_batch, kinds, flavours)
    return g


def document(registry: List[Dict[str, Any]], max_batch: int = 6, kinds: Optional[List[str]] = None,
             flavours: Optional[List[str]] = None) -> st.SearchStrategy:
    return docgen(registry, max_batch, kinds, flavours).document


def element(registry: List[Dict[str, Any]], huge: bool = False) -> st.SearchStrategy:
    return docgen(registry).element(huge)
