"""
C15 - after any sequence of registrations the callable method names are exactly: explicit name or the function's own name,
preceded by the dot-joined prefixes of the registries / view it was added through; later registrations replace earlier
ones; views expose exactly their public callables; every other name yields -32601.
"""

import json
from typing import Any, Dict, List, Optional, Set

from hypothesis import strategies as st

import pjrpc.server

from pbt import jsongen as jg, methods as hm
from pbt.runner import Check, Disc, Outcome

PREFIXES = [None, 'a', 'a.b']
# two functions share the __name__ 'dup'; one collides with a view method name; one has a leading underscore in its own name
# (only VIEW members with a leading underscore are private - a function registered by the application is reachable under its name)
FUNC_NAMES = ['f0', 'f1', 'f2', 'dup', 'dup', 'get', '_ping']
EXPLICIT = ['x', 'f0', 'a.x', 'get', 'user.add', 'dup', '_x', 'a._y', '_private']


def _make_functions():
    out = []
    for k, name in enumerate(FUNC_NAMES):
        ns: Dict[str, Any] = {}
        exec(f"def {name}():\n    return 'tok-fn-{k}'\n", ns)
        out.append(ns[name])
    return out


def _make_views():
    views = []
    for k in range(3):
        class V(pjrpc.server.ViewMixin):
            attr = 5
            _hidden_attr = 6

            def get(self, _k=k):
                return f'tok-view-{_k}-get'

            def put(self, _k=k):
                return f'tok-view-{_k}-put'

            def _private(self, _k=k):
                return f'tok-view-{_k}-_private'

            def __dunder__(self, _k=k):
                return f'tok-view-{_k}-__dunder__'

            @staticmethod
            def stat(_k=k):
                return f'tok-view-{_k}-stat'
        V.__name__ = f'V{k}'
        if k == 2:
            def only2(self):
                return 'tok-view-2-only2'
            V.only2 = only2

            # a public callable that is not a plain function object: a method behind functools.lru_cache
            import functools

            @functools.lru_cache(maxsize=None)
            def cached(self):
                return 'tok-view-2-cached'
            V.cached = cached
        views.append(V)

    # a view that INHERITS its public methods from another view (and adds one of its own)
    class Derived(views[0]):
        def extra(self):
            return 'tok-view-3-extra'

        def get(self, _k=3):
            return 'tok-view-3-get'
    Derived.__name__ = 'V3'
    views.append(Derived)

    # two sibling views that inherit ALL their public methods from a common base (the function objects are shared, only the class differs)
    class Base(pjrpc.server.ViewMixin):
        K = -1

        def info(self):
            return f'tok-view-{self.K}-info'

        def get(self):
            return f'tok-view-{self.K}-get'
    for k in (4, 5):
        views.append(type(f'V{k}', (Base,), {'K': k}))

    # public methods contributed by a plain mixin listed AFTER the view base class
    class Mixin:
        def mixed(self):
            return 'tok-view-6-mixed'

    class V6(pjrpc.server.ViewMixin, Mixin):
        def own(self):
            return 'tok-view-6-own'

        def list_(self):          # a public name that avoids a keyword / builtin by a trailing underscore
            return 'tok-view-6-list_'
    views.append(V6)

    # a view whose constructor fails with a KeyError (it looks something up in a mapping that lacks it): its methods are registered,
    # so they are reachable - a call fails as an internal error, never as 'method not found'
    class V7(pjrpc.server.ViewMixin):
        def __init__(self):
            super().__init__()
            self.user = {}['user']

        def get(self):
            return 'tok-view-7-get'

        def load(self):
            return 'tok-view-7-load'
    views.append(V7)
    return views


FUNCS = _make_functions()
VIEWS = _make_views()
VIEW_PUBLIC = {0: ['get', 'put', 'stat'], 1: ['get', 'put', 'stat'], 2: ['get', 'put', 'stat', 'only2', 'cached'], 3: ['get', 'put', 'stat', 'extra'],
               4: ['info', 'get'], 5: ['info', 'get'], 6: ['mixed', 'own', 'list_'], 7: ['get', 'load']}
# tokens of view 3: 'get' and 'extra' are its own, 'put' and 'stat' are inherited from view 0
VIEW3_TOKENS = {'get': 'tok-view-3-get', 'extra': 'tok-view-3-extra', 'put': 'tok-view-0-put', 'stat': 'tok-view-0-stat'}


def join(*parts: Optional[str]) -> str:
    return '.'.join(p for p in parts if p)


class C15(Check):
    pid = 'C15'
    level = 'exploration'
    quick_examples = 1500
    thorough_examples = 15000
    rule = (
        "[round 16: attach steps through the dispatcher.registry property] [drawn in addition since rounds 13-15: functions and explicit names starting with an underscore; a view whose constructor raises KeyError (reachable = anything but -32601)] "
        "cases: registration histories of up to 6 operations over a pool of 1..4 registries with prefix in {none, 'a', 'a.b'}: add(f), "
        "add(f, name) (names incl. dotted ones and names colliding with other registrations), add_methods(f, g), one decorator object obtained from add() applied to two functions, view(V), view(V, prefix), "
        "merge(r_i into r_j) (i != j, chains up to 3 levels; merged content is a snapshot), then attachment to a sync or async dispatcher via "
        "add_methods(registry) / add(f, name) / view(V) / one add_methods(...) call mixing registries, functions and Method objects in any argument order; functions return unique tokens, two functions share one __name__, views have public "
        "methods, a staticmethod, a method behind functools.lru_cache (callable, not a plain function), _private and __dunder__ methods and non-callable attributes; one view inherits its public methods from another, two sibling views inherit all of theirs from a common base, one gets a method from a plain mixin listed after the view base class. Oracle: a dict model name -> token built from "
        "the property's naming rule; after attach every model name dispatches to its token, every probed other name (one edit away, prefix "
        "dropped / added, private and dunder member names with and without prefixes, bare un-prefixed names) yields -32601, and the "
        "dispatcher's registry key set equals the model's; the attachments are then repeated on a second dispatcher that is probed before the first and after every attach step (a name answers -32601 until registered, its latest registration afterwards). non-trivial = the history merges a prefixed registry or registers a view, and "
        "re-registers at least one name; distinct = distinct spec."
    )
    assumptions = [
        "registries are not merged into themselves; Method instances are passed only to the dispatcher's add_methods (a registry's add_methods(Method) bypasses prefixes by design)",
    ]
    trusted_base = ['dict model in checks/c15.py']
    required_classes = ['op/add', 'op/add-name', 'op/add_methods', 'op/add-decorator-reused', 'op/view', 'op/view-prefix', 'op/merge', 'merge/prefixed-into-prefixed',
                        'merge/depth>=2', 'replaced', 'attach/registry', 'attach/add', 'attach/view', 'attach/mixed', 'dispatcher/sync', 'dispatcher/async', 'view/inherited',
                        'view/siblings-sharing-inherited-methods', 'serving-while-registering/name-changed-between-probes', 'attach/through-the-registry-property']

    def strategy(self, tier: str):
        s_fn = st.integers(0, len(FUNCS) - 1)
        s_reg = st.integers(0, 3)
        s_view = st.sampled_from([0, 1, 2, 3, 4, 5, 4, 5, 6, 7])
        s_op = st.one_of(
            st.builds(lambda r, f: ['add', r, f], s_reg, s_fn),
            st.builds(lambda r, f, n: ['add-name', r, f, n], s_reg, s_fn, st.sampled_from(EXPLICIT)),
            st.builds(lambda r, f, g: ['add_methods', r, f, g], s_reg, s_fn, s_fn),
            st.builds(lambda r, f, g: ['add-decorator-reused', r, f, g], s_reg, s_fn, s_fn),
            st.builds(lambda r, v: ['view', r, v], s_reg, s_view),
            st.builds(lambda r, v, p: ['view-prefix', r, v, p], s_reg, s_view, st.sampled_from(['user', 'a', 'u.v'])),
            st.builds(lambda i, j: ['merge', i, j], s_reg, s_reg),
            st.builds(lambda i, j: ['merge', i, j], s_reg, s_reg),
        )
        s_attach = st.one_of(
            st.builds(lambda r: ['registry', r], s_reg), st.builds(lambda r: ['registry', r], s_reg),
            st.builds(lambda f, n: ['add', f, n], s_fn, st.sampled_from([None, 'x', 'top.level'])),
            st.builds(lambda v: ['view', v], s_view),
            # ONE add_methods(...) call mixing registries, plain functions and Method objects, in this argument order
            st.builds(lambda items: ['mixed', [list(i) for i in items]], st.lists(st.one_of(
                st.builds(lambda r: ['registry', r], s_reg), st.builds(lambda f: ['func', f], s_fn),
                st.builds(lambda f, n: ['method', f, n], s_fn, st.sampled_from(EXPLICIT + FUNC_NAMES[:3])),
            ), min_size=2, max_size=4)),
        )
        return st.builds(
            lambda d, regs, ops, att, thr: {'dispatcher': d, 'registries': regs, 'ops': [list(o) for o in ops], 'attach': [list(a) for a in att], 'through': thr},
            st.sampled_from(['sync', 'async']), st.lists(st.sampled_from(PREFIXES), min_size=1, max_size=4),
            st.lists(s_op, max_size=6), st.lists(s_attach, min_size=1, max_size=3), st.sampled_from(['dispatcher', 'dispatcher', 'registry-property']),
        )

    def corpus(self):
        return [
            {'dispatcher': 'sync', 'registries': ['a', 'a.b', None], 'ops': [['add', 0, 0], ['view-prefix', 0, 0, 'user'], ['merge', 0, 1], ['merge', 1, 2], ['add', 2, 3], ['add', 2, 4]],
             'attach': [['registry', 2]]},
            {'dispatcher': 'sync', 'registries': ['a', None], 'ops': [['view-prefix', 0, 4, 'user'], ['view-prefix', 0, 5, 'user'], ['add', 1, 0], ['view', 1, 5], ['view', 1, 4]],
             'attach': [['mixed', [['func', 1], ['method', 2, 'f0'], ['registry', 1], ['registry', 0]]]]},
            {'dispatcher': 'sync', 'registries': ['a', None], 'ops': [['view', 0, 6], ['view-prefix', 1, 6, 'user'], ['merge', 0, 1]], 'attach': [['registry', 1], ['view', 6]]},
            {'dispatcher': 'sync', 'registries': ['a'], 'ops': [['add-decorator-reused', 0, 0, 1], ['add-decorator-reused', 0, 2, 5]], 'attach': [['registry', 0]]},
            {'dispatcher': 'sync', 'registries': ['a'], 'ops': [['add', 0, 0]], 'attach': [['registry', 0], ['add', 1, 'x'], ['view', 1]], 'through': 'registry-property'},
            {'dispatcher': 'async', 'registries': [None], 'ops': [['add', 0, 2]], 'attach': [['add', 2, None], ['registry', 0]], 'through': 'registry-property'},
            {'dispatcher': 'async', 'registries': [None, 'a'], 'ops': [['view', 1, 2], ['add-name', 1, 1, 'get'], ['merge', 1, 0]], 'attach': [['registry', 0], ['view', 1]]},
        ]

    def run_case(self, spec: Any) -> Outcome:
        kind = spec['dispatcher']
        nreg = len(spec['registries'])
        regs = [pjrpc.server.MethodRegistry(prefix=p) for p in spec['registries']]
        prefixes = list(spec['registries'])
        models: List[Dict[str, str]] = [{} for _ in regs]
        depth = [0] * nreg
        classes: Set[str] = {f'dispatcher/{kind}'}
        replaced = False
        uses_view = merged_prefixed = False

        def put(model: Dict[str, str], name: str, token: str) -> None:
            nonlocal replaced
            if name in model:
                replaced = True
            model[name] = token

        def view_tokens(v: int):
            for m in VIEW_PUBLIC[v]:
                if v == 7:
                    yield m, None   # the constructor raises KeyError: reachable (anything but -32601), no result to compare
                elif m == 'only2' and kind == 'sync':
                    yield m, None   # coroutine under the sync dispatcher: reachable, but the result is not JSON - only reachability is probed
                else:
                    yield m, (VIEW3_TOKENS[m] if v == 3 else f'tok-view-{v}-{m}')

        for op in spec['ops']:
            k = op[0]
            r = op[1] % nreg
            if k == 'add':
                regs[r].add(FUNCS[op[2]])
                put(models[r], join(prefixes[r], FUNC_NAMES[op[2]]), f'tok-fn-{op[2]}')
                classes.add('op/add')
            elif k == 'add-name':
                regs[r].add(FUNCS[op[2]], name=op[3])
                put(models[r], join(prefixes[r], op[3]), f'tok-fn-{op[2]}')
                classes.add('op/add-name')
            elif k == 'add_methods':
                regs[r].add_methods(FUNCS[op[2]], FUNCS[op[3]])
                for f in (op[2], op[3]):
                    put(models[r], join(prefixes[r], FUNC_NAMES[f]), f'tok-fn-{f}')
                classes.add('op/add_methods')
            elif k == 'add-decorator-reused':
                # expose = registry.add()  ...  @expose def f  ...  @expose def g : ONE configured decorator object applied to two functions
                expose = regs[r].add()
                for f in (op[2], op[3]):
                    expose(FUNCS[f])
                    put(models[r], join(prefixes[r], FUNC_NAMES[f]), f'tok-fn-{f}')
                classes.add('op/add-decorator-reused')
            elif k in ('view', 'view-prefix'):
                p = op[3] if k == 'view-prefix' else None
                regs[r].view(VIEWS[op[2]], prefix=p)
                for m, tok in view_tokens(op[2]):
                    put(models[r], join(prefixes[r], p, m), tok)
                classes.add(f'op/{k}')
                uses_view = True
                if op[2] == 3:
                    classes.add('view/inherited')
                if op[2] in (4, 5):
                    classes.add('view/siblings-sharing-inherited-methods')
            elif k == 'merge':
                src, dst = op[1] % nreg, op[2] % nreg
                if src == dst:
                    continue
                regs[dst].merge(regs[src])
                for name, tok in list(models[src].items()):
                    put(models[dst], join(prefixes[dst], name), tok)
                classes.add('op/merge')
                depth[dst] = max(depth[dst], depth[src] + 1)
                if prefixes[src] and prefixes[dst]:
                    classes.add('merge/prefixed-into-prefixed')
                if prefixes[src] and models[src]:
                    merged_prefixed = True
                if depth[dst] >= 2:
                    classes.add('merge/depth>=2')

        # 'registry-property': the same registrations made on the registry the dispatcher exposes (`dispatcher.registry.add(...)`,
        # `.merge(...)`, `.view(...)`) instead of through the dispatcher's own wrappers - it is the registry the dispatcher serves from
        through_property = spec.get('through') == 'registry-property'

        def do_attach(dd: Any, att: List[Any]) -> None:
            if through_property and att[0] != 'mixed':
                if att[0] == 'registry':
                    dd.registry.merge(regs[att[1] % nreg])
                elif att[0] == 'add':
                    dd.registry.add(FUNCS[att[1]], att[2])
                else:
                    dd.registry.view(VIEWS[att[1]])
                return
            if att[0] == 'registry':
                dd.add_methods(regs[att[1] % nreg])
            elif att[0] == 'add':
                dd.add(FUNCS[att[1]], att[2])
            elif att[0] == 'mixed':
                dd.add_methods(*[regs[i[1] % nreg] if i[0] == 'registry' else FUNCS[i[1]] if i[0] == 'func' else pjrpc.server.Method(FUNCS[i[1]], name=i[2])
                                 for i in att[1]])
            else:
                dd.view(VIEWS[att[1]])

        d = pjrpc.server.AsyncDispatcher() if kind == 'async' else pjrpc.server.Dispatcher()
        model: Dict[str, Any] = {}
        snapshots: List[Dict[str, Any]] = []
        for att in spec['attach']:
            do_attach(d, att)
            if att[0] == 'registry':
                r = att[1] % nreg
                for name, tok in models[r].items():
                    put(model, name, tok)
                classes.add('attach/registry')
            elif att[0] == 'add':
                put(model, att[2] or FUNC_NAMES[att[1]], f'tok-fn-{att[1]}')
                classes.add('attach/add')
            elif att[0] == 'mixed':
                for item in att[1]:
                    if item[0] == 'registry':
                        for name, tok in models[item[1] % nreg].items():
                            put(model, name, tok)
                    elif item[0] == 'func':
                        put(model, FUNC_NAMES[item[1]], f'tok-fn-{item[1]}')
                    else:
                        put(model, item[2], f'tok-fn-{item[1]}')
                classes.add('attach/mixed')
            else:
                for m, tok in view_tokens(att[1]):
                    put(model, m, tok)
                classes.add('attach/view')
                uses_view = True
            snapshots.append(dict(model))
        if replaced:
            classes.add('replaced')
        if through_property:
            classes.add('attach/through-the-registry-property')

        discs: List[Disc] = []
        where = f"registries={spec['registries']} ops={spec['ops']} attach={spec['attach']} dispatcher={kind} through={spec.get('through', 'dispatcher')}"
        keys = set(d.registry.keys())
        if keys != set(model):
            discs.append(Disc("C15/registry-key-set", f"extra {sorted(keys - set(model))} missing {sorted(set(model) - keys)} | {where}"))

        def probe(name: str) -> Any:
            text = json.dumps({'jsonrpc': '2.0', 'id': 1, 'method': name})
            r = hm.run_dispatch(kind, d, text, None)
            return json.loads(r[0])

        for name, tok in model.items():
            resp = probe(name)
            if tok is None:
                if resp.get('error', {}).get('code') == -32601:
                    discs.append(Disc("C15/registered-name-unreachable", f"{name!r}: {jg.short(resp)} | {where}"))
            elif 'result' not in resp or resp['result'] != tok:
                clause = 'registered-name-unreachable' if resp.get('error', {}).get('code') == -32601 else 'name-reaches-other-method'
                discs.append(Disc(f"C15/{clause}", f"{name!r} expected {tok!r} got {jg.short(resp)} | {where}"))
        others: Set[str] = set()
        all_prefixes = {p for p in prefixes if p} | {'user', 'u.v', 'a'}
        for name in list(model) + [FUNC_NAMES[0], 'get']:
            others |= {name[:-1], name + 'x', name.upper(), '.' + name, name + '.', name.replace('.', '/')}
            if '.' in name:
                others.add(name.split('.', 1)[1])
                others.add(name.rsplit('.', 1)[-1])
            for p in all_prefixes:
                others.add(f'{p}.{name}')
        for member in ('_private', '__dunder__', 'attr', '_hidden_attr', '__init__', '__methods__'):
            others.add(member)
            for p in all_prefixes:
                others.add(f'{p}.{member}')
                others.add(join(p, 'user', member))
        for name in FUNC_NAMES + EXPLICIT:
            others.add(name)
        n_probes = len(model)
        for name in sorted(others - set(model)):
            if not name:
                continue
            n_probes += 1
            resp = probe(name)
            if resp.get('error', {}).get('code') != -32601:
                which = 'private-member-reachable' if name.rsplit('.', 1)[-1].startswith('_') or name.rsplit('.', 1)[-1] in ('attr',) else 'unregistered-name-reachable'
                discs.append(Disc(f"C15/{which}", f"{name!r} -> {jg.short(resp)} | {where}"))
        # the same attachments on a second dispatcher that is SERVING in between: before anything is registered and after every step each
        # name of the final model is requested - a name answers -32601 until it is registered and its latest registration afterwards
        if not discs and model:
            d2 = pjrpc.server.AsyncDispatcher() if kind == 'async' else pjrpc.server.Dispatcher()
            d = d2
            steps = [({}, 'before any registration')] + [(snap, f'after attach step {i}') for i, snap in enumerate(snapshots)]
            for i, (snap, label) in enumerate(steps):
                if i > 0:
                    do_attach(d2, spec['attach'][i - 1])
                for name in model:
                    n_probes += 1
                    resp = probe(name)
                    if name not in snap:
                        if resp.get('error', {}).get('code') != -32601:
                            discs.append(Disc("C15/serving-while-registering/unregistered-name-reachable", f"{name!r} {label}: {jg.short(resp)} | {where}"))
                    elif snap[name] is not None and resp.get('result') != snap[name]:
                        discs.append(Disc("C15/serving-while-registering/stale-answer", f"{name!r} {label}: expected {snap[name]!r} got {jg.short(resp)} | {where}"))
                if discs:
                    break
            if len(snapshots) >= 2 and any(snapshots[-1].get(n) != snapshots[0].get(n) for n in model):
                classes.add('serving-while-registering/name-changed-between-probes')
        nontrivial = (merged_prefixed or uses_view) and replaced
        return Outcome(discs, nontrivial, sorted(classes), evaluations=n_probes)


CHECK = C15()

MANIFEST = dict(
    technique="model-based property testing (Hypothesis-generated registration histories against a dict model), probing registered, near-miss and private names by dispatch",
    level_text=(
        "Generated histories of add / add with name / add_methods / view / view with prefix / merge over up to four prefixed registries, attached "
        "to either dispatcher, are mirrored in a dict model built from the naming rule in the property; every model name, dozens of near-miss "
        "names and private member names are then dispatched and the registry key set is compared. Sampling over histories of <= 6 operations."
    ),
    level_note="trusts the dict model; operation lists drawn from strategies play the role of a rule-based state machine (the spec stays a replayable JSON list)",
)
