"""
C12 - middlewares run exactly once per request element, first-declared outermost, with the parsed request and the
context; what the chain returns is what is sent; error handlers: generic ones then those registered for the raised
error's code, in list order, chained; never for successes or for documents rejected before dispatch.
"""

from typing import Any, Dict, List

from hypothesis import strategies as st

from pbt import docs, jsongen as jg, methods as hm, refserver as ref, serverharness as sh, stack, stdreg
from pbt.runner import Check, Disc, Outcome

def registry_for(kind: str):
    """the standard registry (it contains a class based view whose constructor raises -> internal error, outside any method body)"""
    return stdreg.std_registry(kind)


HANDLER_CODES = [-32601, -32602, -32000, -32603, 7, 2001, stack.REPLACE_BASE, stack.REPLACE_BASE + 1, stack.REPLACE_BASE + 2,
                 stack.REPLACE_BASE + 50, stack.REPLACE_BASE + 51, -32601, -32000]


class C12(Check):
    pid = 'C12'
    level = 'exploration'
    quick_examples = 3000
    thorough_examples = 40000
    rule = (
        "cases: stacks of 0..3 middlewares of kinds pass-through / short-circuit (answering calls only; answering every element incl. notifications; returning 'no response' for every element incl. calls) / request-rewriting (other method and params, same id) / "
        "response-rewriting x error-handler tables (none, generic only, per-code only, both, up to 3 handlers per key; kinds identity / "
        "annotate / replace-by-another-code / change the received error's code in place / the same callable registered again under the same or another key; keys incl. the replacement codes themselves) x library or application (behaviour-preserving subclasses) message classes on the dispatcher x middlewares passed as list / tuple / one-shot generator, handler lists as list / tuple, the table's keys written generic-first or codes-first x request documents over the 15-method registry "
        "(successes, every failure class incl. an internal error raised outside the method body by a class based view's constructor, notifications, failing notifications, batches, rejected documents, non-JSON) x scripted method "
        "failures x sync / async dispatcher. Oracle: the reference server extended with the stack semantics predicts the response "
        "document, the executions and the exact event log (middleware enter events with method / id / params / context identity, handler "
        "events with key, received code, request) - compared as sequences; the same document dispatched a second time through the same dispatcher gives the same response and events. non-trivial = >= 2 middlewares, or >= 2 handlers ran, or a "
        "short-circuit / rewrite / replace kind took effect; distinct = distinct spec."
    )
    assumptions = [
        "middlewares and error handlers do not raise (the proviso of C01)",
        "async: no handler suspends in this check, so batch elements run to completion in request order (interleavings are C10's subject)",
    ]
    trusted_base = ['pbt/stack.py reference model', 'pbt/refserver.py']
    required_classes = ['mw/0', 'mw/1', 'mw/2', 'mw/3', 'mw/short-circuited', 'mw/answered-notification', 'dispatcher/custom-message-classes', 'mw/passed-as-generator', 'mw/passed-as-tuple', 'mw/swallowed-call', 'handlers/same-callable-twice', 'mw/kind/rewrite-request', 'mw/kind/rewrite-response',
                        'handlers/none', 'handlers/generic', 'handlers/per-code', 'handlers/ran', 'handlers/replace-ran',
                        'doc/batch-accepted', 'doc/not-json', 'doc/batch-rejected/invalid-element', 'notification/raises-exception', 'call/internal-error',
                        'dispatcher/sync', 'dispatcher/async', 'async/sequential-batch']

    def strategy(self, tier: str):
        s_mw = st.one_of(
            st.just({'kind': 'pass'}), st.just({'kind': 'pass'}), st.just({'kind': 'pass'}), st.just({'kind': 'short'}), st.just({'kind': 'rewrite-response'}),
            st.just({'kind': 'rewrite-response'}), st.just({'kind': 'answer-all'}), st.just({'kind': 'swallow'}),
            st.builds(lambda m, p: {'kind': 'rewrite-request', 'method': m, 'params': p},
                      st.sampled_from(['echo', 'noargs', 'boom', 'rpc_err', 'nope', 'ret']),
                      st.sampled_from([[], [1], [1, 2, 3], {'a': 1}, {'x': 5}, {'zz': 0}])),
        )
        s_h = st.sampled_from([{'kind': 'identity'}, {'kind': 'annotate'}, {'kind': 'annotate'}, {'kind': 'replace'}, {'kind': 'replace'}, {'kind': 'mutate'},
                               {'kind': 'reuse', 'of': 0}, {'kind': 'reuse', 'of': 1}])
        s_hs = st.lists(s_h, max_size=3)
        s_table = st.one_of(
            st.none(),
            st.builds(lambda g, cs, ko: {'generic': g, 'codes': [[c, h] for c, h in cs], 'key_order': ko}, s_hs,
                      st.lists(st.tuples(st.sampled_from(HANDLER_CODES), s_hs), max_size=3, unique_by=lambda t: t[0]),
                      st.sampled_from(['generic-first', 'codes-first'])),
        )

        def for_kind(kind: str):
            reg = registry_for(kind) + [m for m in registry_for(kind) if m['name'] == 'bad.get'] * 2
            gen = docs.document(reg, kinds=['single'] * 5 + ['batch'] * 4 + ['raw', 'mangled', 'value'],
                                flavours=['valid'] * 10 + ['unknown-method'] * 2 + ['deviant', 'non-object'])
            return st.builds(
                lambda text, beh, mws, table, conc, mc, hc: {'dispatcher': kind, 'behaviours': beh, 'middlewares': mws, 'handlers': table, 'text': text,
                                                              'concurrent_batch': conc, 'mw_container': mc, 'handler_container': hc,
                                                              'custom_classes': len(beh) % 3 == 0},
                gen, stdreg.behaviours(), st.lists(s_mw, max_size=3), s_table, st.sampled_from([True, True, False]),
                st.sampled_from(['list', 'list', 'tuple', 'generator']), st.sampled_from(['list', 'list', 'tuple']),
            )
        return st.one_of(for_kind('sync'), for_kind('async'))

    def corpus(self):
        t = lambda doc: {'doc': doc, 'ascii': True, 'indent': 0, 'pad': '', 'huge': None, 'mangle': None}  # noqa: E731
        out = []
        for kind in ('sync', 'async'):
            out += [
                {'dispatcher': kind, 'behaviours': {}, 'middlewares': [{'kind': 'pass'}, {'kind': 'rewrite-response'}, {'kind': 'pass'}],
                 'handlers': {'generic': [{'kind': 'annotate'}, {'kind': 'identity'}], 'codes': [[-32601, [{'kind': 'replace'}]], [stack.REPLACE_BASE + 2, [{'kind': 'annotate'}]]]},
                 'text': t([{'jsonrpc': '2.0', 'id': 1, 'method': 'nope'}, {'jsonrpc': '2.0', 'method': 'boom'}, {'jsonrpc': '2.0', 'id': 2, 'method': 'echo', 'params': [1]}])},
                {'dispatcher': kind, 'behaviours': {}, 'middlewares': [{'kind': 'rewrite-response'}, {'kind': 'pass'}], 'handlers': None, 'mw_container': 'generator',
                 'text': t([{'jsonrpc': '2.0', 'id': 1, 'method': 'echo', 'params': [1]}, {'jsonrpc': '2.0', 'method': 'echo', 'params': [1]}])},
                {'dispatcher': kind, 'behaviours': {}, 'middlewares': [{'kind': 'pass'}, {'kind': 'answer-all'}], 'handlers': None, 'custom_classes': True,
                 'text': t([{'jsonrpc': '2.0', 'id': 1, 'method': 'echo', 'params': [1]}, {'jsonrpc': '2.0', 'id': 2, 'method': 'nope'}])},
                {'dispatcher': kind, 'behaviours': {}, 'middlewares': [], 'custom_classes': True,
                 'handlers': {'generic': [{'kind': 'mutate'}], 'codes': [[-32601, [{'kind': 'annotate'}]], [stack.REPLACE_BASE + 50, [{'kind': 'replace'}]]]},
                 'text': t([{'jsonrpc': '2.0', 'id': 1, 'method': 'nope'}, {'jsonrpc': '2.0', 'id': 2, 'method': 'boom'}])},
                {'dispatcher': kind, 'behaviours': {}, 'middlewares': [{'kind': 'pass'}],
                 'handlers': {'generic': [{'kind': 'annotate'}], 'codes': [[-32601, [{'kind': 'replace'}]], [-32000, [{'kind': 'replace'}]]], 'key_order': 'codes-first'},
                 'text': t([{'jsonrpc': '2.0', 'id': 1, 'method': 'nope'}, {'jsonrpc': '2.0', 'id': 2, 'method': 'boom'}])},
                {'dispatcher': kind, 'behaviours': {}, 'middlewares': [{'kind': 'short'}, {'kind': 'pass'}], 'handlers': None,
                 'text': t([{'jsonrpc': '2.0', 'id': 1, 'method': 'nope'}, {'jsonrpc': '2.0', 'method': 'echo', 'params': [1]}])},
                {'dispatcher': kind, 'behaviours': {}, 'middlewares': [{'kind': 'pass'}], 'handlers': {'generic': [{'kind': 'replace'}], 'codes': []},
                 'text': t([])},
                {'dispatcher': kind, 'behaviours': {}, 'middlewares': [], 'handlers': {'generic': [{'kind': 'annotate'}], 'codes': [[-32603, [{'kind': 'replace'}]]]},
                 'text': t([{'jsonrpc': '2.0', 'id': 1, 'method': 'bad.get'}, {'jsonrpc': '2.0', 'method': 'bad.get', 'params': [1]}])},
            ]
        return out

    def run_case(self, spec: Any) -> Outcome:
        kind = spec['dispatcher']
        is_async = kind == 'async'
        ev = stack.Events()
        mws = stack.build_middlewares(spec['middlewares'], ev, is_async)
        table = stack.build_handlers(spec['handlers'], ev, is_async)
        registry, behaviours = registry_for(kind), sh.behaviours_of(spec)
        sentinel = object()
        ev.sentinel = sentinel
        hm.RT.reset(sentinel, behaviours, error_builder=sh.build_error)
        # the constructor documents `middlewares: Iterable`: a list, a tuple or a one-shot iterator must all work
        container = spec.get('mw_container', 'list')
        mws_arg: Any = mws if container == 'list' else tuple(mws) if container == 'tuple' else (m for m in mws)
        if spec.get('handler_container') == 'tuple':
            table = {k: tuple(v) for k, v in table.items()}
        extra: Dict[str, Any] = {}
        if spec.get('custom_classes'):
            # the application configured its own (behaviour-preserving) message classes; middlewares still answer with plain pjrpc.Response
            import pjrpc
            extra = {'request_class': type('AppRequest', (pjrpc.Request,), {}), 'response_class': type('AppResponse', (pjrpc.Response,), {}),
                     'batch_request': type('AppBatchRequest', (pjrpc.BatchRequest,), {}), 'batch_response': type('AppBatchResponse', (pjrpc.BatchResponse,), {})}
        d = hm.build_dispatcher(kind, registry, middlewares=mws_arg, error_handlers=table, concurrent_batch=spec.get('concurrent_batch', True), **extra)
        obs = sh.Observation()
        obs.request_text = docs.render(spec['text'])
        # observe() resets RT with its own sentinel, so drive the dispatcher here
        import json
        try:
            ret = hm.run_dispatch(kind, d, obs.request_text, sentinel)
        except Exception as e:
            return Outcome([Disc(f"C12/dispatch-raised/{type(e).__name__}", f"{e!r} for {obs.request_text[:300]!r}")], True, ['crash'])
        obs.log = hm.RT.log
        got_doc: Any = ref.NOTHING
        if ret is not None:
            try:
                got_doc = json.loads(ret[0])
            except Exception as e:
                return Outcome([Disc("C12/malformed-return", f"{ret!r}: {e}")], True, ['crash'])

        exp_doc, exp_exec, exp_events, classes = stack.expect_stack(obs.request_text, registry, behaviours, spec['middlewares'], spec['handlers'])
        discs: List[Disc] = []
        where = f"mws={[m['kind'] for m in spec['middlewares']]} handlers={jg.short(spec['handlers'], 200)} request={obs.request_text[:250]!r}"
        for clause, detail in ref.compare_document(exp_doc, got_doc):
            discs.append(Disc(f"C12/response/{clause.split('/')[0]}", f"{detail} | {where}"))
        got_exec = [{'method': e['method'], 'args': e['args']} for e in obs.log]
        if not (len(got_exec) == len(exp_exec) and all(jg.jeq(a, b) for a, b in zip(got_exec, exp_exec))):
            discs.append(Disc("C12/executions", f"log {jg.short(got_exec)} expected {jg.short(exp_exec)} | {where}"))
        got_events = ev.log
        if not (len(got_events) == len(exp_events) and all(jg.jeq(a, b) for a, b in zip(got_events, exp_events))):
            gm = [e for e in got_events if e[0] == 'mw']
            em = [e for e in exp_events if e[0] == 'mw']
            which = 'middleware-events' if not (len(gm) == len(em) and all(jg.jeq(a, b) for a, b in zip(gm, em))) else 'handler-events'
            discs.append(Disc(f"C12/{which}", f"events {jg.short(got_events, 500)} expected {jg.short(exp_events, 500)} | {where}"))

        # the same document once more through the SAME dispatcher: the stack is configuration, serving a request does not use it up
        if not discs:
            first_events, first_ret = list(ev.log), ret
            del ev.log[:]
            hm.RT.reset(sentinel, behaviours, error_builder=sh.build_error)
            try:
                ret2 = hm.run_dispatch(kind, d, obs.request_text, sentinel)
            except Exception as e:
                ret2 = ('raised', repr(e))
            same_ret = (ret2 is None and first_ret is None) or (ret2 is not None and first_ret is not None and json.loads(ret2[0]) == json.loads(first_ret[0])
                                                                and tuple(ret2[1]) == tuple(first_ret[1])) if not (ret2 and ret2[0] == 'raised') else False
            if not same_ret or not (len(ev.log) == len(first_events) and all(jg.jeq(a, b) for a, b in zip(ev.log, first_events))):
                discs.append(Disc("C12/second-dispatch-of-the-same-document-differs",
                                  f"first {first_ret!r} events {jg.short(first_events, 300)}; second {ret2!r} events {jg.short(ev.log, 300)} | {where}"))
        n_mw = len(spec['middlewares'])
        classes.append(f"mw/{n_mw}")
        if n_mw and container != 'list':
            classes.append(f"mw/passed-as-{container}")
        if spec.get('custom_classes'):
            classes.append('dispatcher/custom-message-classes')
        classes.append(f"dispatcher/{kind}")
        if kind == 'async' and not spec.get('concurrent_batch', True):
            classes.append('async/sequential-batch')
        for m in spec['middlewares']:
            classes.append(f"mw/kind/{m['kind']}")
        tb = spec['handlers']
        if not tb or (not tb.get('generic') and not any(h for _, h in tb.get('codes', []))):
            classes.append('handlers/none')
        else:
            if tb.get('generic'):
                classes.append('handlers/generic')
            if any(h for _, h in tb.get('codes', [])):
                classes.append('handlers/per-code')
        n_eh = len([e for e in exp_events if e[0] == 'eh'])
        if any(e[0] == 'eh' for e in exp_events) and tb:
            kinds = [h['kind'] for h in tb.get('generic', [])] + [h['kind'] for _, hs in tb.get('codes', []) for h in hs]
            if 'replace' in kinds:
                classes.append('handlers/replace-ran')
        ehs = [e[1] for e in exp_events if e[0] == 'eh']
        # the same callable ran more than once for ONE request element (events of one element are contiguous and share method + id)
        per_element: Dict[Any, List[int]] = {}
        for k, e in enumerate(exp_events):
            if e[0] == 'eh':
                per_element.setdefault((e[4], repr(e[5]), tuple(x for x in range(k) if exp_events[x][0] == 'mw').__len__()), []).append(e[1])
        if any(len(v) != len(set(v)) for v in per_element.values()):
            classes.append('handlers/same-callable-twice')
        nontrivial = n_mw >= 2 or n_eh >= 2 or 'mw/short-circuited' in classes or any(
            m['kind'] in ('rewrite-request', 'rewrite-response') for m in spec['middlewares']) and bool(exp_events)
        return Outcome(discs, bool(nontrivial), sorted(set(classes)))


CHECK = C12()

MANIFEST = dict(
    technique="property-based testing (Hypothesis) of generated middleware stacks and error-handler tables against a reference model predicting the response, the executions and the exact event log",
    level_text=(
        "Generated stacks (0..3 middlewares of six kinds) and handler tables (generic / per-code, identity / annotate / replace / a callable registered more than once) are "
        "attached to both dispatchers and driven with generated request documents; an independent model of the stack semantics predicts "
        "the event sequence of instrumented middlewares / handlers, the executions and the response document. Sampling over a bounded "
        "configuration space; suspension-free handlers only (interleavings are covered by C10)."
    ),
    level_note="trusts pbt/stack.py + pbt/refserver.py; middlewares / handlers never raise (proviso)",
)
