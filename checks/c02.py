"""
C02 - one response per call, none per notification; an accepted batch is answered by exactly the responses
its elements would get alone, in request order; a rejected batch executes nothing; one execution per
accepted element whose method exists and whose parameters bind.
"""

import itertools
import json
from typing import Any, Dict, List

from hypothesis import strategies as st

from pbt import docs, jsongen as jg, refserver as ref, serverharness as sh, stdreg
from pbt.runner import Check, Disc, Outcome

from checks.c01 import BATCH_LIMITS, CODEC_CHOICES, batch_limit, doc_classes

MAPPING_CLAUSES = ('nothing-vs-response', 'expected-array', 'response-count', 'expected-single-object', 'id',
                   'expected-success', 'expected-error', 'result', 'response-not-object')

ELEMENT_KINDS = [(c, k) for c in ('call', 'notification') for k in ('succeeds', 'unknown', 'nobind', 'rpc', 'exc', 'invalid')]


def word_element(pos: int, carrier: str, kind: str, idv: Any) -> Any:
    el: Dict[str, Any] = {'jsonrpc': '2.0'}
    if kind == 'succeeds':
        el.update(method='echo', params=[pos])
    elif kind == 'unknown':
        el.update(method='nope', params=[pos])
    elif kind == 'nobind':
        el.update(method='echo', params=[])
    elif kind == 'rpc':
        el.update(method='rpc_err', params=[pos])
    elif kind == 'exc':
        el.update(method='boom', params={'x': pos})
    else:
        el.update(method=pos)
    if carrier == 'call':
        el['id'] = idv
    return el


ID_TYPINGS = [
    lambda i: i + 1, lambda i: i, lambda i: str(i + 1), lambda i: -i, lambda i: ['', '1', 1, 0][i % 4], lambda i: 'id' * i,
]


class C02(Check):
    pid = 'C02'
    level = 'exploration'
    quick_examples = 2500
    thorough_examples = 30000
    rule = (
        "[round 16: clean batches of 10-33 elements] [drawn in addition since rounds 13-15: async dispatcher serving plain functions and its sequential batch mode; half of the generated batches consist of well-formed elements with distinct ids; every scripted exception type once per serving mode] "
        "cases: (a) every word of length 1..3 (quick) / 1..4 (thorough) over the 12 element kinds {call, notification} x {succeeds, "
        "unknown method, params do not bind, raises protocol error, raises exception, not a valid request object} x 2 dispatchers x an id "
        "typing (integers from 1, from 0, numeric strings, negatives, the mix '', '1', 1, 0, growing strings), enumerated; (b) Hypothesis-"
        "generated singles and batches of 0..6 elements over the 15-method registry with duplicate ids injected at chosen position pairs "
        "(1/1, '1'/'1', 1/'1' which is not a duplicate, 0/0, ''/''), max_batch_size around the length, generated behaviours. Oracles: "
        "reference server (document equality, ids type-exact), metamorphic (accepted batch == concatenation of each element dispatched "
        "alone on a fresh dispatcher; nothing if none answers), execution log == the reference's executions (ordered for the sync "
        "dispatcher, multiset for async). non-trivial = >= 2 elements of different kinds, or a failing notification, or an id from "
        "{0,'','1',negative}, or a duplicate pair; distinct = distinct spec."
    )
    assumptions = [
        "registered methods are the harness' generated ones (echo / scripted failure); 'params do not bind' is decided by calling a twin "
        "function with the same signature",
        "library-generated errors are compared by code only",
    ]
    trusted_base = ['pbt/refserver.py', 'python json', 'python call binding (twin functions)']
    required_classes = [
        'doc/single-call', 'doc/single-notification', 'doc/batch-accepted', 'doc/batch-accepted/all-notifications',
        'doc/batch-rejected/empty', 'doc/batch-rejected/invalid-element', 'doc/batch-rejected/duplicate-ids', 'doc/batch-rejected/too-large',
        'notification/raises-exception', 'notification/params-do-not-bind', 'notification/unknown-method', 'call/params-do-not-bind',
        'metamorphic/checked', 'dispatcher/sync', 'dispatcher/async',
    ]

    def strategy(self, tier: str):
        def for_kind(kind: str, plain: bool = False):
            reg = stdreg.std_registry('sync' if plain else kind)
            gen = docs.document(reg, kinds=['single'] * 2 + ['batch'] * 8 + ['long'],
                                flavours=['valid'] * 12 + ['unknown-method'] * 2 + ['deviant', 'non-object'])
            return st.builds(
                lambda text, beh, mbs, codec: {'dispatcher': kind, 'plain': plain, 'sequential': kind == 'async' and (len(beh) + len(codec)) % 3 == 0, 'max_batch_size': batch_limit(text, mbs), 'behaviours': beh, 'text': text, 'codec': codec},
                gen, stdreg.behaviours(True), st.sampled_from(BATCH_LIMITS + ['-1', '0', '+1']), st.sampled_from(CODEC_CHOICES),
            )
        return st.one_of(for_kind('sync'), for_kind('async'), for_kind('async', True))

    # -- enumeration of element-kind words -----------------------------------------------------------

    def _words(self, maxlen: int):
        n = 0
        for length in range(1, maxlen + 1):
            for word in itertools.product(range(len(ELEMENT_KINDS)), repeat=length):
                for kind in ('sync', 'async'):
                    n += 1
                    typing = n % len(ID_TYPINGS)
                    yield {'dispatcher': kind, 'max_batch_size': None, 'behaviours': {}, 'word': list(word), 'typing': typing}

    def enumerate(self, tier: str):
        return self._words(3) if tier == 'quick' else None

    def enum_shards(self, tier: str) -> int:
        return 16

    def enumerate_shard(self, tier: str, shard: int, nshards: int):
        for n, spec in enumerate(self._words(4)):
            if n % nshards == shard:
                yield spec

    def exhaustive_note(self, tier: str) -> str:
        n = 3 if tier == 'quick' else 4
        return f"all element-kind words of length 1..{n} over 12 kinds x 2 dispatchers (one id typing per word, rotating); random batches sampled"

    def corpus(self):
        t = lambda doc: {'doc': doc, 'ascii': True, 'indent': 0, 'pad': '', 'huge': None, 'mangle': None}  # noqa: E731
        out = []
        for kind in ('sync', 'async'):
            base = {'dispatcher': kind, 'max_batch_size': None, 'behaviours': {}}
            out += [
                {**base, 'text': t([{'jsonrpc': '2.0', 'method': 'noargs'}, {'jsonrpc': '2.0', 'method': 'boom'}])},
                {**base, 'text': t([{'jsonrpc': '2.0', 'method': 'echo', 'params': [1], 'id': 1}, {'jsonrpc': '2.0', 'method': 'echo', 'params': [2], 'id': '1'}])},
                {**base, 'text': t([{'jsonrpc': '2.0', 'method': 'echo', 'params': [1], 'id': 1}, {'jsonrpc': '2.0', 'method': 'echo', 'params': [2], 'id': 1}])},
                {**base, 'text': t([{'jsonrpc': '2.0', 'method': 'echo', 'params': [1], 'id': 0}, {'jsonrpc': '2.0', 'method': 'echo', 'params': [2], 'id': ''}])},
                {**base, 'max_batch_size': 1, 'text': t([{'jsonrpc': '2.0', 'method': 'echo', 'params': [1], 'id': 1}, {'jsonrpc': '2.0', 'method': 'noargs'}])},
                {**base, 'text': t({'jsonrpc': '2.0', 'method': 'echo', 'params': [1, 2, 3]})},
                # near-miss spellings of the protocol version: each makes its element an invalid request (nothing of the batch runs)
                *[{**base, 'text': t([{'jsonrpc': '2.0', 'method': 'echo', 'params': [1], 'id': 1}, {'jsonrpc': v, 'method': 'echo', 'params': [2], 'id': 2}])}
                  for v in ('2', '2.', '.0', '0', '.', '', '2.00')],
                *[{**base, 'text': t({'jsonrpc': v, 'method': 'noargs', 'id': 7})} for v in ('2', '', '.0')],
            ]
        return out + stdreg.exception_corpus('MARKER-c02-zq') + stdreg.rpc_error_corpus()

    # -- run -------------------------------------------------------------------------------------------

    def run_case(self, spec: Any) -> Outcome:
        if 'word' in spec:
            typing = ID_TYPINGS[spec['typing']]
            els = [word_element(i, *ELEMENT_KINDS[k], typing(i)) for i, k in enumerate(spec['word'])]
            doc = els[0] if len(els) == 1 and spec['typing'] % 2 == 0 else els
            spec = {**spec, 'text': {'doc': doc, 'ascii': True, 'indent': 0, 'pad': '', 'huge': None, 'mangle': None}}
        if spec['dispatcher'] == 'async':
            spec = {**spec, 'yield_once': True}   # coroutine methods really suspend once (execution log compared as a multiset)
        obs = sh.observe(spec)
        registry, behaviours = sh.registry_of(spec), sh.behaviours_of(spec)
        exp = ref.expect(obs.request_text, registry, behaviours, spec.get('max_batch_size'), spec.get('codec', 'default'))
        discs: List[Disc] = []
        if obs.raised is not None:
            discs.append(Disc(f"C02/dispatch-raised/{type(obs.raised).__name__}", f"{obs.raised!r} for {obs.request_text[:300]!r}"))
        elif obs.parse_error:
            discs.append(Disc("C02/malformed-return", obs.parse_error))
        for d in sh.reference_discs('C02', obs, exp, ordered_log=spec['dispatcher'] == 'sync'):
            clause = d.bucket.split('/')[2]
            if d.bucket.startswith('C02/response/') and clause not in MAPPING_CLAUSES:
                continue  # error-code / verbatim clauses belong to C03
            discs.append(d)
        classes = doc_classes(spec, exp)

        # metamorphic: accepted batch == each element alone
        evaluations = 1
        plain_elements = exp.parsed
        if spec.get('codec', 'default') != 'default' and exp.accepted_batch:
            # the elements are re-rendered from the plainly parsed text (floats, not the Decimals the model computed with);
            # a literal beyond the double range has no such rendering, the relation is then not checked
            plain_elements = json.loads(obs.request_text)
            if 'Infinity' in json.dumps(plain_elements):
                plain_elements = None
        if exp.accepted_batch and obs.raised is None and not obs.parse_error and plain_elements is not None:
            classes.append('metamorphic/checked')
            singles = []
            log_total = 0
            for el in plain_elements:
                o = sh.observe(spec, text=json.dumps(el))
                evaluations += 1
                log_total += len(o.log)
                if o.raised is not None or o.parse_error:
                    singles = None
                    break
                if o.doc != ref.NOTHING:
                    singles.append(o.doc)
            if singles is not None:
                want = singles if singles else ref.NOTHING
                if not (obs.doc == ref.NOTHING and want == ref.NOTHING) and not (obs.doc != ref.NOTHING and want != ref.NOTHING and jg.jeq(obs.doc, want)):
                    discs.append(Disc("C02/metamorphic/batch-differs-from-singles",
                                      f"batch {jg.short(obs.doc)} singles {jg.short(want)} | request {obs.request_text[:300]!r}"))
                if log_total != len(obs.log):
                    discs.append(Disc("C02/metamorphic/execution-count", f"batch ran {len(obs.log)} methods, singles {log_total} | {obs.request_text[:300]!r}"))

        nontrivial = self._nontrivial(exp)
        return Outcome(discs, nontrivial, classes, evaluations)

    @staticmethod
    def _nontrivial(exp: ref.Expectation) -> bool:
        p = exp.parsed
        els = p if isinstance(p, list) else [p]
        dicts = [e for e in els if isinstance(e, dict)]
        if exp.klass == 'doc/batch-rejected/duplicate-ids':
            return True
        if any(e.id is None and e.outcome != 'result' for e in exp.elements):
            return True
        for e in dicts:
            i = e.get('id')
            if (i == 0 and not isinstance(i, bool)) or i == '' or i == '1' or (isinstance(i, int) and not isinstance(i, bool) and i < 0):
                return True
        if len(exp.elements) >= 2 and len({e.klass for e in exp.elements}) >= 2:
            return True
        return False


CHECK = C02()

MANIFEST = dict(
    technique="property-based testing (Hypothesis) + exhaustive element-kind words against a reference JSON-RPC server, with a batch-vs-singles metamorphic relation and execution-log comparison",
    level_text=(
        "Every batch shape over the 12 element kinds up to length 3 (quick) / 4 (thorough) is enumerated for both dispatchers, and "
        "generated batches with duplicate ids, mixed id typings and max_batch_size around the length are sampled. Three oracles: an "
        "independent reference server, the batch == singles metamorphic relation, and the log of instrumented methods. Bounded "
        "exploration (batches <= 6, 15 methods); no claim beyond the explored space."
    ),
    level_note="trusts pbt/refserver.py (does not import pjrpc), python's json and call binding; library error wording is not compared",
)
