"""
C13 - requests are independent: the response to a request does not depend on what the dispatcher served before (or is
serving from other threads); after a dispatch returns nothing created for the request (context, view instance) is retained.
"""

import gc
import json
import sys
import threading
import weakref
from typing import Any, Dict, List

from hypothesis import strategies as st

from pbt import docs, jsongen as jg, methods as hm, refserver as ref, serverharness as sh, stdreg
from pbt.runner import Check, Disc, Outcome


class Ctx:
    """weak-referenceable per-request context"""


VIEW_REFS: List[Any] = []


def _retention_dispatcher(kind: str, validator: str, flavour: str):
    import pjrpc.server
    from pjrpc.server import validators
    if validator == 'base':
        v = validators.BaseValidator()
    elif validator == 'jsonschema':
        from pjrpc.server.validators import jsonschema as vj
        v = vj.JsonSchemaValidator()
    else:
        from pjrpc.server.validators import pydantic as vp
        v = vp.PydanticValidator()
    schema = {'type': 'object', 'properties': {'a': {'type': 'integer'}}, 'required': ['a']}
    vargs = {'schema': schema} if validator == 'jsonschema' else {}
    is_async = kind == 'async'
    d = pjrpc.server.AsyncDispatcher() if is_async else pjrpc.server.Dispatcher()

    def body(a, fail):
        if fail == 'rpc':
            raise pjrpc.exc.JsonRpcError(code=5, message='five')
        if fail == 'exc':
            raise RuntimeError('boom')
        if fail == 'code':
            # an application error whose code is computed from the request (an upstream status, a row number, ...)
            raise pjrpc.exc.JsonRpcError(code=a, message='upstream said no', data={'upstream': a})
        return a

    if flavour in ('func', 'func-positional'):
        if is_async:
            @v.validate(**vargs)
            async def meth(ctx, a: int, fail: str = ''):
                assert isinstance(ctx, Ctx)
                return body(a, fail)
        else:
            @v.validate(**vargs)
            def meth(ctx, a: int, fail: str = ''):
                assert isinstance(ctx, Ctx)
                return body(a, fail)
        d.add(meth, 'meth', context='ctx', positional=(flavour == 'func-positional'))
    elif flavour == 'view-wrapped':
        # a class based view whose method sits behind an ordinary functools.wraps decorator (logging, auth, timing ...)
        import functools

        def logged(fn):
            if is_async:
                @functools.wraps(fn)
                async def wrapper(self, *args, **kwargs):
                    return await fn(self, *args, **kwargs)
            else:
                @functools.wraps(fn)
                def wrapper(self, *args, **kwargs):
                    return fn(self, *args, **kwargs)
            return wrapper

        if is_async:
            class WrappedView(pjrpc.server.ViewMixin):
                def __init__(self, context):
                    super().__init__()
                    self.context = context
                    VIEW_REFS.append(weakref.ref(self))

                @v.validate(**vargs)
                @logged
                async def meth(self, a: int, fail: str = ''):
                    assert isinstance(self.context, Ctx)
                    return body(a, fail)
        else:
            class WrappedView(pjrpc.server.ViewMixin):  # type: ignore[no-redef]
                def __init__(self, context):
                    super().__init__()
                    self.context = context
                    VIEW_REFS.append(weakref.ref(self))

                @v.validate(**vargs)
                @logged
                def meth(self, a: int, fail: str = ''):
                    assert isinstance(self.context, Ctx)
                    return body(a, fail)
        d.registry.view(WrappedView, context='ctx')
    elif flavour == 'view-noctx':
        # a class based view registered WITHOUT a context: one instance per request, never retained, never shared
        if is_async:
            class PlainView(pjrpc.server.ViewMixin):
                def __init__(self):
                    super().__init__()
                    self.seen = []
                    VIEW_REFS.append(weakref.ref(self))

                @v.validate(**vargs)
                async def meth(self, a: int, fail: str = ''):
                    self.seen.append(a)
                    assert self.seen == [a], 'view instance shared between requests'
                    return body(a, fail)
        else:
            class PlainView(pjrpc.server.ViewMixin):  # type: ignore[no-redef]
                def __init__(self):
                    super().__init__()
                    self.seen = []
                    VIEW_REFS.append(weakref.ref(self))

                @v.validate(**vargs)
                def meth(self, a: int, fail: str = ''):
                    self.seen.append(a)
                    assert self.seen == [a], 'view instance shared between requests'
                    return body(a, fail)
        d.registry.view(PlainView)
    else:
        if is_async:
            class View(pjrpc.server.ViewMixin):
                def __init__(self, context):
                    super().__init__()
                    self.context = context
                    VIEW_REFS.append(weakref.ref(self))

                @v.validate(**vargs)
                async def meth(self, a: int, fail: str = ''):
                    assert isinstance(self.context, Ctx)
                    return body(a, fail)
        else:
            class View(pjrpc.server.ViewMixin):
                def __init__(self, context):
                    super().__init__()
                    self.context = context
                    VIEW_REFS.append(weakref.ref(self))

                @v.validate(**vargs)
                def meth(self, a: int, fail: str = ''):
                    assert isinstance(self.context, Ctx)
                    return body(a, fail)
        d.registry.view(View, context='ctx')
    # a context-only method (no client parameters) and a context-free method without parameters
    if is_async:
        async def ping(ctx):
            assert isinstance(ctx, Ctx)
            return 'pong'

        async def noctx():
            return 'plain'
    else:
        def ping(ctx):
            assert isinstance(ctx, Ctx)
            return 'pong'

        def noctx():
            return 'plain'
    d.add(ping, 'ping', context='ctx')
    d.add(noctx, 'noctx')
    return d


RETENTION_REQUESTS = {
    'ok': {'jsonrpc': '2.0', 'id': 1, 'method': 'meth', 'params': {'a': 1}},
    'ok-positional': {'jsonrpc': '2.0', 'id': 1, 'method': 'meth', 'params': [2]},
    'notification': {'jsonrpc': '2.0', 'method': 'meth', 'params': [3]},
    'raises-rpc': {'jsonrpc': '2.0', 'id': 2, 'method': 'meth', 'params': {'a': 1, 'fail': 'rpc'}},
    'raises-exc': {'jsonrpc': '2.0', 'id': 3, 'method': 'meth', 'params': {'a': 1, 'fail': 'exc'}},
    'does-not-bind': {'jsonrpc': '2.0', 'id': 4, 'method': 'meth', 'params': {'zz': 1}},
    'does-not-validate': {'jsonrpc': '2.0', 'id': 5, 'method': 'meth', 'params': {'a': 'not-an-int'}},
    'unknown': {'jsonrpc': '2.0', 'id': 6, 'method': 'nope'},
    'rejected': {'jsonrpc': '1.0', 'id': 7, 'method': 'meth'},
    'batch': [{'jsonrpc': '2.0', 'id': 8, 'method': 'meth', 'params': [1]}, {'jsonrpc': '2.0', 'method': 'meth', 'params': {'a': 1, 'fail': 'exc'}}],
    'not-json': None,
    'ping-no-params': {'jsonrpc': '2.0', 'id': 9, 'method': 'ping'},
    'ping-empty-list': {'jsonrpc': '2.0', 'id': 10, 'method': 'ping', 'params': []},
    'noctx': {'jsonrpc': '2.0', 'id': 11, 'method': 'noctx'},
}


# request templates whose client-supplied text is different in every request (i = a counter that never repeats)
GROWTH_TEMPLATES = {
    'unknown-method': lambda i: {'jsonrpc': '2.0', 'id': i, 'method': f'nope_{i}'},
    'unknown-dotted-method': lambda i: {'jsonrpc': '2.0', 'id': i, 'method': f'svc{i}.sub{i}.call'},
    'unknown-method-notification': lambda i: {'jsonrpc': '2.0', 'method': f'gone_{i}'},
    'ok-varying-argument': lambda i: {'jsonrpc': '2.0', 'id': i, 'method': 'meth', 'params': {'a': 100000 + i}},
    'ok-varying-string-id': lambda i: {'jsonrpc': '2.0', 'id': f'request-{i}', 'method': 'meth', 'params': [7]},
    'rpc-error-varying-argument': lambda i: {'jsonrpc': '2.0', 'id': i, 'method': 'meth', 'params': {'a': 100000 + i, 'fail': 'rpc'}},
    'rpc-error-varying-code': lambda i: {'jsonrpc': '2.0', 'id': i, 'method': 'meth', 'params': {'a': 100000 + i, 'fail': 'code'}},
    'exception-varying-argument': lambda i: {'jsonrpc': '2.0', 'id': i, 'method': 'meth', 'params': {'a': 100000 + i, 'fail': 'exc'}},
    'does-not-bind-varying-name': lambda i: {'jsonrpc': '2.0', 'id': i, 'method': 'meth', 'params': {f'zz{i}': 1}},
    'does-not-validate-varying-value': lambda i: {'jsonrpc': '2.0', 'id': i, 'method': 'meth', 'params': {'a': f'not-an-int-{i}'}},
    'rejected-varying-version': lambda i: {'jsonrpc': f'1.{i}', 'id': i, 'method': 'meth'},
    'batch-varying': lambda i: [{'jsonrpc': '2.0', 'id': f'b{i}', 'method': f'nope_{i}'}, {'jsonrpc': '2.0', 'method': 'meth', 'params': [i]},
                                {'jsonrpc': '2.0', 'id': i, 'method': 'meth', 'params': {'a': 1, 'fail': 'rpc'}}],
    'not-json-varying': lambda i: None,
}
GROWTH_COUNTER = [0]


class C13(Check):
    pid = 'C13'
    level = 'exploration'
    quick_examples = 500
    thorough_examples = 3000
    chunk = 250
    rule = (
        "[round 16: methods with adjacent excluded parameters (context + predicate), first request vs later ones] [drawn in addition since rounds 13-15: growth template with error codes computed from the request; every ordered pair of methods sharing a validator instance enumerated] "
        "cases: (a) histories of 0..12 (quick) / 0..30 (thorough) generated request documents (C01-C04 corpus: valid, failing, batch, "
        "rejected, non-JSON) served by one dispatcher, followed by a probe request whose response document and codes are compared with the "
        "probe served by a fresh dispatcher built from the same spec - also for same-named functions with different annotations and for functions whose signatures compare equal although their defaults differ in type (1 / True / 1.0) that share one PydanticValidator instance and for methods with different per-method arguments that share one JsonSchemaValidator instance; (b) retention: N in {1, 10, 1000} dispatches, a fresh weak-"
        "referenceable context object each, for function methods (context by name or as first positional argument), class based view methods with and without a constructor context and behind a functools.wraps decorator, a context-only method called without params and a context-free method x validator {base, jsonschema, pydantic} x "
        "sync / async x request kinds (ok, notification, raises, does not bind / validate, unknown, rejected, batch, non-JSON): after gc no "
        "context object and no view instance is alive; (b2) growth: three passes of N in {100, 200, 1000} requests whose client-supplied text never repeats (unknown and dotted method names, argument values, "
        "string ids, application error codes, unknown parameter names, invalid values, versions, batches, non-JSON) - the number of gc-tracked objects alive after the third pass exceeds the number after the second by less than N/2; (c) 2..16 threads dispatching rotated corpora through one shared dispatcher with "
        "sys.setswitchinterval(1e-6): every response equals the single-threaded response; each round uses a dispatcher over freshly created function objects, so first-call work of the library happens under contention; optionally behind response-rewriting middlewares (a bypassed chain changes the answer). non-trivial = history with >= 1 failing and >= 1 "
        "batch request before the probe / retention with N >= 10 / thread run with >= 2 threads; distinct = distinct spec."
    )
    assumptions = [
        "methods keep no state of their own (echo / scripted failure); the echo methods consume (empty) their own container arguments after copying them into the result",
        "'memory does not grow' is decided through retained references (weak references to contexts and view instances) and through the count of gc-tracked objects across passes of never-repeating requests (threshold: half an object per request), not by measuring process memory",
        "thread schedules are sampled by the OS, not controlled: part (c) can expose a race, it cannot exclude one",
    ]
    trusted_base = ['python gc / weakref', 'pbt/refserver.py (class labels only)']
    required_classes = ['history/nontrivial', 'retention/func', 'retention/func-positional', 'retention/view', 'retention/view-noctx', 'retention/view-wrapped', 'retention/base', 'retention/jsonschema', 'retention/pydantic',
                        'retention/n=1000', 'threads/run', 'vhistory/two-methods-before-probe', 'growth/run',
                        'growth/unknown-method', 'growth/batch-varying']

    # ---- generation -------------------------------------------------------------------------------------

    def strategy(self, tier: str):
        maxlen = 12 if tier == 'quick' else 30

        def hist(kind: str):
            reg = stdreg.std_registry(kind)
            doc = docs.document(reg)
            # every third history also contains the probe's own text (the same request text served twice by one dispatcher)
            return st.builds(lambda h, p, b, rep: {'kind': 'history', 'dispatcher': kind, 'history': (h[:rep % (len(h) + 1)] + [p] + h[rep % (len(h) + 1):]) if rep < 4 else h,
                                                   'probe': p, 'behaviours': b},
                             st.lists(doc, max_size=maxlen), doc, stdreg.behaviours(), st.integers(0, 11))

        def threads(kind: str):
            reg = stdreg.std_registry(kind)
            doc = docs.document(reg, kinds=['single'] * 4 + ['batch'] * 4 + ['raw'])
            return st.builds(lambda n, c: {'kind': 'threads', 'dispatcher': kind, 'threads': n, 'corpus': c, 'rounds': 3},
                             st.sampled_from([2, 4, 8, 16]), st.lists(doc, min_size=3, max_size=8)).map(lambda s: {**s, 'rounds': 6, 'middlewares': s['threads'] in (4, 16)})

        retention = st.builds(
            lambda d, v, f, n, r: {'kind': 'retention', 'dispatcher': d, 'validator': v, 'flavour': f, 'n': n, 'requests': r},
            st.sampled_from(['sync', 'async']), st.sampled_from(['base', 'jsonschema', 'pydantic']), st.sampled_from(['func', 'func-positional', 'view', 'view-noctx', 'view-wrapped']),
            st.sampled_from([1, 10, 10, 30]), st.lists(st.sampled_from(sorted(RETENTION_REQUESTS)), min_size=1, max_size=4),
        )
        vcall = st.tuples(st.sampled_from(['users.get', 'posts.get', 'users.get_many', 'ip.strict', 'ip.lax', 'ip.lax', 'pick.int', 'pick.bool', 'pick.float', 'inject.base', 'inject.pyd']),
                          st.sampled_from([[1], ['1'], ['x'], [[1, 2]], [None], [], [], [1.5], [{'a': 1}], ['1.2.3.4'], ['not-an-ip']]))
        vhistory = st.builds(lambda d, h, p, c: {'kind': 'vhistory', 'dispatcher': d, 'history': [list(x) for x in h], 'probe': list(p), 'coerce': c},
                             st.sampled_from(['sync', 'async']), st.lists(vcall, max_size=6), vcall, st.booleans())
        growth = st.builds(
            lambda d, v, f, t: {'kind': 'growth', 'dispatcher': d, 'validator': v, 'flavour': f, 'n': 100, 'templates': t},
            st.sampled_from(['sync', 'async']), st.sampled_from(['base', 'jsonschema', 'pydantic']), st.sampled_from(['func', 'view', 'view-noctx']),
            st.lists(st.sampled_from(sorted(GROWTH_TEMPLATES)), min_size=1, max_size=3, unique=True),
        )
        return jg.weighted(hist('sync'), hist('async'), hist('sync'), hist('async'), retention, retention, threads('sync'), vhistory, growth)

    def enumerate(self, tier: str):
        # the N = 1000 matrix: flavour x validator x dispatcher (12 cells)
        if tier != 'quick':
            return None
        return self._matrix([1000]) + self._growth_matrix(200) + self._vpairs()

    def _vpairs(self):
        """every ordered pair of methods that share one validator instance: one call of the first (conforming or not), then the
        second probed with every argument of the alphabet"""
        groups = [(['users.get', 'posts.get', 'users.get_many'], [[1], ['x']]), (['pick.int', 'pick.bool', 'pick.float'], [[], [2]]),
                  (['ip.strict', 'ip.lax'], [['1.2.3.4'], ['not-an-ip']])]
        args = [[1], ['1'], ['x'], [[1, 2]], [None], [], [1.5], [{'a': 1}], ['1.2.3.4'], ['not-an-ip']]
        out = []
        for names, hargs in groups:
            for a in names:
                for b in names:
                    if a != b:
                        for k, ha in enumerate(hargs):
                            for j, pa in enumerate(args):
                                out.append({'kind': 'vhistory', 'dispatcher': 'sync' if (k + j) % 2 else 'async', 'history': [[a, ha]], 'probe': [b, pa], 'coerce': (j + k) % 3 != 0})
        # a method's first request against its later ones (the probe on a fresh dispatcher IS a first request)
        for a in ('inject.base', 'inject.pyd'):
            for b in ('inject.base', 'inject.pyd'):
                for k, ha in enumerate([[], [1], ['x', 2]]):
                    for j, pa in enumerate([[], [1], ['x'], [1, 2], {'value': 3}, {'dep_db': 'client'}, {'value': 1, 'flag': True}]):
                        out.append({'kind': 'vhistory', 'dispatcher': 'sync' if (k + j) % 2 else 'async', 'history': [[a, ha]], 'probe': [b, pa], 'coerce': (j + k) % 3 != 0})
        return out

    def _growth_matrix(self, n):
        out = []
        for d in ('sync', 'async'):
            for k, (v, f) in enumerate((('base', 'func'), ('jsonschema', 'view'), ('pydantic', 'view-noctx'))):
                for name in sorted(GROWTH_TEMPLATES):
                    out.append({'kind': 'growth', 'dispatcher': d, 'validator': v, 'flavour': f, 'n': n, 'templates': [name]})
        return out

    def _matrix(self, ns):
        out = []
        for n in ns:
            for d in ('sync', 'async'):
                for v in ('base', 'jsonschema', 'pydantic'):
                    for f in ('func', 'func-positional', 'view', 'view-noctx', 'view-wrapped'):
                        out.append({'kind': 'retention', 'dispatcher': d, 'validator': v, 'flavour': f, 'n': n,
                                    'requests': ['ok', 'raises-exc', 'does-not-validate', 'batch', 'notification', 'ping-no-params', 'noctx', 'ping-empty-list']})
        return out

    def enum_shards(self, tier: str) -> int:
        return 16

    def enumerate_shard(self, tier: str, shard: int, nshards: int):
        cells = self._matrix([1, 10, 1000])
        thr = [{'kind': 'threads', 'dispatcher': k, 'threads': n, 'rounds': 10, 'corpus': 'std'} for k in ('sync', 'async') for n in (2, 4, 8, 16)]
        return [c for i, c in enumerate(cells + thr * 3 + self._growth_matrix(1000)) if i % nshards == shard]

    def corpus(self):
        t = lambda doc: {'doc': doc, 'ascii': True, 'indent': 0, 'pad': '', 'huge': None, 'mangle': None}  # noqa: E731
        call = lambda m, p, i=1: {'jsonrpc': '2.0', 'id': i, 'method': m, 'params': p}  # noqa: E731
        return [
            {'kind': 'history', 'dispatcher': 'sync', 'behaviours': {},
             'history': [t(call('echo', [1])), t([call('boom', [], 1), call('echo', [2], 2)]), t(call('v.get', {'a': 1})), {'raw': '{'}],
             'probe': t(call('echo', [5, 6]))},
            {'kind': 'history', 'dispatcher': 'async', 'behaviours': {},
             'history': [t(call('v.get', [1])), t(call('with_ctx', [1])), t(call('echo', {'zz': 1}))], 'probe': t(call('v.get', [9]))},
            {'kind': 'history', 'dispatcher': 'sync', 'behaviours': {}, 'history': [t(call('echo', [[1, 2, 3], {'k': [4]}]))], 'probe': t(call('echo', [[1, 2, 3], {'k': [4]}]))},
            {'kind': 'history', 'dispatcher': 'async', 'behaviours': {}, 'history': [t([call('v.get', [[1, 2]], 1), call('echo', {'a': {'x': 1}}, 2)])] * 2,
             'probe': t([call('v.get', [[1, 2]], 1), call('echo', {'a': {'x': 1}}, 2)])},
            {'kind': 'vhistory', 'dispatcher': 'sync', 'coerce': True, 'history': [['pick.int', []], ['pick.float', [2]]], 'probe': ['pick.bool', []]},
            {'kind': 'vhistory', 'dispatcher': 'async', 'coerce': True, 'history': [['pick.bool', []]], 'probe': ['pick.float', []]},
            {'kind': 'vhistory', 'dispatcher': 'sync', 'coerce': False, 'history': [['pick.float', []], ['pick.bool', []]], 'probe': ['pick.int', []]},
            {'kind': 'threads', 'dispatcher': 'sync', 'threads': 4, 'rounds': 12, 'corpus': 'std'},
            {'kind': 'threads', 'dispatcher': 'sync', 'threads': 16, 'rounds': 12, 'corpus': 'std'},
            {'kind': 'threads', 'dispatcher': 'sync', 'threads': 8, 'rounds': 40, 'corpus': 'std', 'middlewares': True},
            # many short rounds: what matters is the very first dispatch through each fresh dispatcher
            {'kind': 'threads', 'dispatcher': 'sync', 'threads': 8, 'rounds': 400, 'corpus': 'std', 'middlewares': True, 'texts_per_round': 2},
            {'kind': 'threads', 'dispatcher': 'sync', 'threads': 16, 'rounds': 200, 'corpus': 'std', 'middlewares': False, 'texts_per_round': 2},
            {'kind': 'threads', 'dispatcher': 'async', 'threads': 8, 'rounds': 10, 'corpus': 'std', 'middlewares': True},
            {'kind': 'threads', 'dispatcher': 'async', 'threads': 2, 'rounds': 4, 'corpus': 'std'},
        ]

    # ---- run ----------------------------------------------------------------------------------------------

    def run_case(self, spec: Any) -> Outcome:
        return getattr(self, f"_run_{spec['kind']}")(spec)

    def _run_history(self, spec) -> Outcome:
        kind = spec['dispatcher']
        registry, behaviours = sh.registry_of(spec), sh.behaviours_of(spec)
        case = {'dispatcher': kind, 'behaviours': spec['behaviours'], 'text': spec['probe']}
        fresh = sh.observe(case)
        d = hm.build_dispatcher(kind, registry)
        failing = batches = 0
        for ts in spec['history']:
            o = sh.observe({'dispatcher': kind, 'behaviours': spec['behaviours'], 'text': ts}, dispatcher=d)
            if o.raised is not None:
                return Outcome([Disc(f"C13/history/dispatch-raised/{type(o.raised).__name__}", f"{o.raised!r} for {o.request_text[:200]!r}")], True, ['history/crash'])
            e = ref.expect(o.request_text, registry, behaviours)
            if not e.elements or any(el.outcome != 'result' for el in e.elements):
                failing += 1
            if isinstance(e.parsed, list):
                batches += 1
        after = sh.observe(case, dispatcher=d)
        discs: List[Disc] = []
        same = (fresh.raised is None) == (after.raised is None) and (
            (fresh.doc == ref.NOTHING and after.doc == ref.NOTHING) or (fresh.doc != ref.NOTHING and after.doc != ref.NOTHING and jg.jeq(fresh.doc, after.doc))
        ) and fresh.codes == after.codes
        if not same:
            discs.append(Disc("C13/history/probe-response-depends-on-history",
                              f"fresh {jg.short(fresh.doc)} {fresh.codes} after history {jg.short(after.doc)} {after.codes} | probe {after.request_text[:200]!r} "
                              f"history {[docs.render(t)[:80] for t in spec['history']]}"))
        fl = [{'method': e['method'], 'args': e['args']} for e in fresh.log]
        al = [{'method': e['method'], 'args': e['args']} for e in after.log]
        if not (len(fl) == len(al) and all(jg.jeq(a, b) for a, b in zip(fl, al))):
            discs.append(Disc("C13/history/probe-executions-depend-on-history", f"fresh {jg.short(fl)} after {jg.short(al)} | probe {after.request_text[:200]!r}"))
        nontrivial = failing >= 1 and batches >= 1
        classes = ['history/any', f"history/len={min(len(spec['history']), 12)}"]
        if nontrivial:
            classes.append('history/nontrivial')
        return Outcome(discs, nontrivial, classes, evaluations=len(spec['history']) + 2)

    def _vdispatcher(self, spec):
        """same-named functions from different 'modules' sharing one PydanticValidator instance"""
        import pjrpc.server
        from typing import List as L
        from pjrpc.server.validators import pydantic as vp
        v = vp.PydanticValidator(coerce=spec['coerce'])
        is_async = spec['dispatcher'] == 'async'
        d = pjrpc.server.AsyncDispatcher() if is_async else pjrpc.server.Dispatcher()

        def make(ann, tag):
            ns = {'T': ann}
            exec(("async " if is_async else "") + f"def get(ident: T):\n    return ['{tag}', type(ident).__name__, ident]\n", ns)
            return v.validate(ns['get'])
        d.add(make(int, 'users'), 'users.get')
        d.add(make(str, 'posts'), 'posts.get')
        d.add(make(L[int], 'many'), 'users.get_many')

        # functions whose signatures compare equal although their defaults differ (1 == True == 1.0 in python)
        def make_default(default, tag):
            ns = {'D': default}
            exec(("async " if is_async else "") + f"def pick(value=D):\n    return ['{tag}', type(value).__name__, value]\n", ns)
            return v.validate(ns['pick'])
        d.add(make_default(1, 'int'), 'pick.int')
        d.add(make_default(True, 'bool'), 'pick.bool')
        d.add(make_default(1.0, 'float'), 'pick.float')
        # two methods sharing one JsonSchemaValidator instance, with different per-method validator arguments
        import jsonschema
        from pjrpc.server.validators import jsonschema as vj
        jv = vj.JsonSchemaValidator()
        schema = {'type': 'object', 'properties': {'ident': {'type': 'string', 'format': 'ipv4'}}, 'required': ['ident']}

        def make_js(tag, **vargs):
            ns = {}
            exec(("async " if is_async else "") + f"def label(ident):\n    return ['{tag}', ident]\n", ns)
            return jv.validate(ns['label'], schema=schema, **vargs)
        d.add(make_js('strict', format_checker=jsonschema.FormatChecker()), 'ip.strict')
        d.add(make_js('lax'), 'ip.lax')
        # methods with several parameters the client never supplies: the context (excluded by name) next to dependencies with defaults
        # excluded by the validator's predicate - what a method's FIRST request is validated against is what every later one is
        from pjrpc.server import validators as vb
        pred = lambda name, ann, default: name.startswith('dep_')  # noqa: E731

        def make_inject(validator, tag):
            ns = {}
            exec(("async " if is_async else "") + f"def inject(ctx, dep_db='DB', value=0, dep_log='LOG', *, flag=False):\n    return ['{tag}', dep_db, value, dep_log, flag]\n", ns)
            return validator.validate(ns['inject'])
        d.add(make_inject(vb.BaseValidator(exclude_param=pred), 'base'), 'inject.base', context='ctx')
        d.add(make_inject(vp.PydanticValidator(coerce=spec['coerce'], exclude_param=pred), 'pyd'), 'inject.pyd', context='ctx')
        return d

    def _run_vhistory(self, spec) -> Outcome:
        kind = spec['dispatcher']

        def ask(d, call):
            text = json.dumps({'jsonrpc': '2.0', 'id': 1, 'method': call[0], 'params': call[1]})
            return hm.run_dispatch(kind, d, text, None)
        fresh = ask(self._vdispatcher(spec), spec['probe'])
        d = self._vdispatcher(spec)
        for call in spec['history']:
            ask(d, call)
        after = ask(d, spec['probe'])
        discs = []
        if fresh != after:
            discs.append(Disc("C13/history/probe-response-depends-on-history", f"fresh {fresh!r} after history {after!r} | probe {spec['probe']} history {spec['history']} "
                                                                               f"(same-named functions sharing one PydanticValidator, coerce={spec['coerce']})"))
        nontrivial = len({c[0] for c in spec['history']}) >= 2
        return Outcome(discs, nontrivial, ['vhistory/any'] + (['vhistory/two-methods-before-probe'] if nontrivial else []), evaluations=len(spec['history']) + 2)

    def _run_retention(self, spec) -> Outcome:
        kind = spec['dispatcher']
        d = _retention_dispatcher(kind, spec['validator'], spec['flavour'])
        del VIEW_REFS[:]
        ctx_refs = []
        n = spec['n']
        reqs = spec['requests']
        for i in range(n):
            name = reqs[i % len(reqs)]
            body = RETENTION_REQUESTS[name]
            text = '{"broken' if body is None else json.dumps(body)
            ctx = Ctx()
            ctx_refs.append(weakref.ref(ctx))
            try:
                r = hm.run_dispatch(kind, d, text, ctx)
            except Exception as e:
                return Outcome([Disc(f"C13/retention/dispatch-raised/{type(e).__name__}", f"{e!r} for {text!r} validator={spec['validator']}")], True, ['retention/crash'])
            del ctx
            want = {'noctx': 'plain', 'ping-no-params': 'pong', 'ping-empty-list': 'pong', 'ok': 1, 'ok-positional': 2}.get(name)
            if want is not None and (r is None or json.loads(r[0]).get('result') != want):
                return Outcome([Disc("C13/retention/response-depends-on-earlier-requests",
                                     f"request #{i} {name}: {r!r} expected result {want!r} | validator={spec['validator']} flavour={spec['flavour']} dispatcher={kind} requests={reqs}")],
                               True, ['retention/wrong-response'])
        gc.collect()
        alive_ctx = sum(1 for r in ctx_refs if r() is not None)
        alive_views = sum(1 for r in VIEW_REFS if r() is not None)
        created_views = len(VIEW_REFS)
        del VIEW_REFS[:]
        discs = []
        where = f"validator={spec['validator']} flavour={spec['flavour']} dispatcher={kind} n={n} requests={reqs}"
        if alive_ctx:
            discs.append(Disc(f"C13/retention/context-retained/{spec['flavour']}", f"{alive_ctx} of {n} context objects still alive after gc | {where}"))
        if alive_views:
            discs.append(Disc("C13/retention/view-instance-retained", f"{alive_views} of {created_views} view instances still alive after gc | {where}"))
        classes = [f"retention/{spec['flavour']}", f"retention/{spec['validator']}", f"retention/n={n}", f"retention/{kind}"]
        return Outcome(discs, n >= 10, classes, evaluations=n)

    def _run_growth(self, spec) -> Outcome:
        """three passes of n requests whose client-supplied text never repeats; the number of gc-tracked objects alive after a pass
        must not grow from the second to the third pass (the first pass warms caches up)"""
        kind = spec['dispatcher']
        d = _retention_dispatcher(kind, spec['validator'], spec['flavour'])
        n = spec['n']
        names = spec['templates']

        def one_pass() -> Any:
            for k in range(n):
                GROWTH_COUNTER[0] += 1
                i = GROWTH_COUNTER[0]
                body = GROWTH_TEMPLATES[names[k % len(names)]](i)
                text = '{"broken-%d' % i if body is None else json.dumps(body)
                try:
                    hm.run_dispatch(kind, d, text, Ctx())
                except Exception as e:
                    return e
            return None

        counts = []
        for _ in range(3):
            err = one_pass()
            if err is not None:
                return Outcome([Disc(f"C13/growth/dispatch-raised/{type(err).__name__}", f"{err!r} templates={names} validator={spec['validator']}")], True, ['growth/crash'])
            del VIEW_REFS[:]
            gc.collect()
            gc.collect()
            counts.append(len(gc.get_objects()))
        grown = counts[2] - counts[1]
        discs = []
        if grown >= n // 2:
            discs.append(Disc("C13/growth/objects-accumulate-with-requests-served",
                              f"{grown} more gc-tracked objects alive after {n} further requests (after passes: {counts}) | templates={names} "
                              f"validator={spec['validator']} flavour={spec['flavour']} dispatcher={kind}"))
        return Outcome(discs, True, ['growth/run'] + [f'growth/{t}' for t in names], evaluations=3 * n)

    def _run_threads(self, spec) -> Outcome:
        kind = spec['dispatcher']
        registry = stdreg.std_registry(kind)
        behaviours = stdreg.effective_behaviours({})
        if spec['corpus'] == 'std':
            texts = [json.dumps(x) for x in (
                {'jsonrpc': '2.0', 'id': 1, 'method': 'echo', 'params': [1]}, {'jsonrpc': '2.0', 'id': 2, 'method': 'echo', 'params': {'a': 'x', 'b': None}},
                [{'jsonrpc': '2.0', 'id': 3, 'method': 'v.get', 'params': [3]}, {'jsonrpc': '2.0', 'method': 'boom'}, {'jsonrpc': '2.0', 'id': 4, 'method': 'nope'}],
                {'jsonrpc': '2.0', 'id': 5, 'method': 'with_ctx', 'params': {'a': 5}}, {'jsonrpc': '2.0', 'id': 6, 'method': 'rpc_err'},
                {'jsonrpc': '2.0', 'id': 7, 'method': 'kwonly', 'params': {'k': 7}}, {'jsonrpc': '2.0', 'id': 8, 'method': 'echo', 'params': []}, [], 1,
                {'jsonrpc': '2.0', 'id': 9, 'method': 'pos_ctx', 'params': [9]},
            )] + ['{"x']
        else:
            texts = [docs.render(ts) for ts in spec['corpus']]
        sentinel = object()
        hm.RT.reset(sentinel, behaviours, error_builder=sh.build_error)
        # optional middlewares whose effect is visible in every successful answer (a bypassed chain changes the response)
        from pbt import stack
        def mws():
            if not spec.get('middlewares'):
                return {}
            return {'middlewares': stack.build_middlewares([{'kind': 'rewrite-response'}, {'kind': 'pass'}, {'kind': 'rewrite-response'}], stack.Events(), kind == 'async')}
        single = hm.build_dispatcher(kind, registry, **mws())

        def serve(d, text, own_loop=None):
            if kind == 'sync':
                return d.dispatch(text, sentinel)
            return own_loop.run_until_complete(d.dispatch(text, sentinel))

        import asyncio
        main_loop = asyncio.new_event_loop() if kind == 'async' else None
        expected = [serve(single, t, main_loop) for t in texts]
        if main_loop:
            main_loop.close()
        # the shared dispatcher serves FRESH function objects: whatever the library does on a function's first-ever call (signature
        # inspection, model building, caches) then happens while the other threads are calling the same function
        # (one dispatcher with new function objects per round; all threads enter a round together)
        nthreads, rounds = spec['threads'], spec['rounds']
        shared_by_round = [hm.build_dispatcher(kind, [{**m, 'ephemeral': True} for m in registry], **mws()) for _ in range(rounds)]
        results: List[Any] = [None] * nthreads
        errors: List[Any] = []
        barrier = threading.Barrier(nthreads)

        def worker(idx: int) -> None:
            loop = asyncio.new_event_loop() if kind == 'async' else None
            out = []
            try:
                for r in range(rounds):
                    barrier.wait(timeout=30)
                    shared = shared_by_round[r]
                    for k in range(min(len(texts), spec.get('texts_per_round', len(texts)))):
                        # even rounds: every thread walks the texts in the same order (they meet on the same function's first call);
                        # odd rounds: each thread starts elsewhere
                        j = (k + r + (idx if r % 2 else 0)) % len(texts)
                        out.append((j, serve(shared, texts[j], loop)))
            except Exception as e:  # noqa
                errors.append((idx, repr(e)))
            finally:
                if loop:
                    loop.close()
            results[idx] = out

        old = sys.getswitchinterval()
        sys.setswitchinterval(1e-6)
        try:
            ths = [threading.Thread(target=worker, args=(i,)) for i in range(nthreads)]
            for th in ths:
                th.start()
            for th in ths:
                th.join(timeout=120)
        finally:
            sys.setswitchinterval(old)
        discs = []
        if errors:
            discs.append(Disc("C13/threads/dispatch-raised", f"{errors[:3]}"))
        n_eval = 0
        for idx, out in enumerate(results):
            for j, got in (out or []):
                n_eval += 1
                if got != expected[j]:
                    discs.append(Disc("C13/threads/response-differs", f"thread {idx} request {texts[j][:150]!r}: got {got!r} expected {expected[j]!r}"))
                    break
        return Outcome(discs[:3], nthreads >= 2, ['threads/run', f"threads/{nthreads}", f"threads/{kind}"], evaluations=max(n_eval, 1))


CHECK = C13()

MANIFEST = dict(
    technique="property-based histories (Hypothesis) with a fresh-dispatcher differential, weak-reference retention probes over a validator x flavour matrix, sampled multi-thread runs",
    level_text=(
        "Histories of generated requests followed by a probe are compared with the same probe on a fresh dispatcher; retention is decided "
        "by weak references to per-request context objects and view instances after N = 1, 10, 1000 dispatches for every validator x "
        "function / view x sync / async cell (the N = 1000 matrix is enumerated in both tiers); thread pools of 2..16 threads are compared with "
        "single-threaded responses. The thread part samples OS schedules and is the weakest: it can expose a race, not exclude one."
    ),
    level_note="trusts python's gc and weakref; memory growth is decided through retained references, not RSS; thread schedules are not controlled",
)
