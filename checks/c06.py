"""
C06 - deserialisation is strict and total: only DeserializationError (IdentityError for duplicate
ids) escapes from_json; structurally invalid messages are never accepted; valid ones are accepted
with their members intact; a rejected append / extend leaves a batch unchanged.
"""

import itertools
from typing import Any, Dict, List, Optional

from hypothesis import strategies as st

import pjrpc
from pjrpc.common import UNSET
from pjrpc.common.exceptions import DeserializationError, IdentityError, JsonRpcError

from pbt import errors as he   # registers the harness' error classes once, at import; holds the harness' model of the registry
from pbt import jsongen as jg
from pbt import wellformed as wf
from pbt.runner import Check, Disc, Outcome

ABSENT = '\x00ABSENT'   # only inside this module's generators; never part of a spec
ALPHA: List[Any] = [ABSENT, None, True, False, 0, 1, -1, 1.0, 1.5, '', '2.0', 'x', [], [1], {}, {'a': 1}, 2.0, 2]

# a few error objects for the response product (the full error product is enumerated on its own)
ERR_OBJECTS: List[Any] = [
    {'code': 1, 'message': 'm'}, {'code': -32601, 'message': 'Method not found', 'data': None},
    {'code': 0, 'message': ''}, {'code': 2001, 'message': 'm', 'data': {'a': [1]}},
    {'code': True, 'message': 'm'}, {'code': 1.0, 'message': 'm'}, {'code': '1', 'message': 'm'},
    {'code': 1, 'message': 1}, {'code': 1, 'message': None}, {'message': 'm'}, {'code': 1}, {'code': None, 'message': 'm'},
]


def obj(**members: Any) -> Dict[str, Any]:
    return {k: v for k, v in members.items() if not (isinstance(v, str) and v == ABSENT)}


def canonical(kind: str) -> Any:
    if kind == 'request':
        return {'jsonrpc': '2.0', 'id': 1, 'method': 'x', 'params': [1]}
    if kind == 'response':
        return {'jsonrpc': '2.0', 'id': 1, 'result': 'x'}
    return {'code': 1, 'message': 'x'}


def deviates(kind: str, v: Any) -> bool:
    return not jg.jeq(v, canonical(kind))


def typed_default(code: int):
    return he.expected_class(code)


class C06(Check):
    pid = 'C06'
    level = 'exploration'
    fuzz_seconds = 60   # thorough tier: extra Atheris campaign
    quick_examples = 3000
    thorough_examples = 40000
    rule = (
        "[drawn in addition since rounds 13-15: valid messages whose payload is nested 100 / 400 / 900 levels] "
        "cases: (a) the complete product of the per-member alphabet {absent,null,true,false,0,1,-1,1.0,1.5,'','2.0','x',[],[1],{},"
        "{'a':1},2.0,2} over jsonrpc/id/method/params (requests: 104976), jsonrpc/id/result/error with error over the alphabet plus 12 "
        "error objects (responses: 174960), code/message/data (errors: 5832) and jsonrpc/id/result/error of an object handed to BatchResponse.from_json (batch-level errors: 17496), enumerated in both tiers, plus valid two-element batches with one alphabet element spliced in at every position; (b) Hypothesis-generated "
        "arbitrary JSON values, messages with nested payloads and extra members, batches of 0..3 elements, batch-level error objects; "
        "(c) append/extend histories over the id alphabet {null,0,1,2,'1',''}. Oracle: independent validity predicates "
        "(pbt/wellformed.py): valid => object with jeq-equal members, invalid => DeserializationError, duplicate ids => "
        "IdentityError, anything else is a violation; histories are compared with a list+set model after every step. "
        "non-trivial = the value deviates from the canonical valid message of its kind (histories: contain a rejected operation "
        "followed by an accepted one); distinct = distinct case spec (sha1 of canonical JSON)."
    )
    assumptions = [
        "JSON values are the Python values json.loads produces (no tuples, no NaN)",
        "a response without an id member is left undecided (the property does not list it)",
        "an empty response array is left undecided by C06 (only the empty batch *request* is listed)",
        "batch elements that are both invalid and duplicated may raise either library error",
    ]
    trusted_base = ['pbt/wellformed.py predicates', 'python json']
    required_classes = [
        'request/valid', 'request/invalid', 'response/valid', 'response/invalid', 'error/valid', 'error/invalid',
        'batch_request/valid', 'batch_request/invalid', 'batch_request/duplicate', 'batch_response/valid',
        'batch_response/duplicate', 'batch_response/batch-error', 'history/rejected-then-accepted', 'deep/accepted',
    ]

    # ---- generation -----------------------------------------------------------------------------

    def enumerate(self, tier: str):
        if tier != 'quick':
            return None
        return self._enum_all()

    def _enum_all(self):
        for j, i, m, p in itertools.product(ALPHA, repeat=4):
            yield {'kind': 'request', 'value': obj(jsonrpc=j, id=i, method=m, params=p)}
        for j, i, r in itertools.product(ALPHA, repeat=3):
            for e in ALPHA + ERR_OBJECTS:
                yield {'kind': 'response', 'value': obj(jsonrpc=j, id=i, result=r, error=e)}
        for c, m, d in itertools.product(ALPHA, repeat=3):
            yield {'kind': 'error', 'value': obj(code=c, message=m, data=d)}
        # arrays: one element from the alphabet (null, scalars, containers) spliced into an otherwise valid batch at every position
        good_req = [{'jsonrpc': '2.0', 'id': 1, 'method': 'm'}, {'jsonrpc': '2.0', 'method': 'n', 'params': [1]}]
        good_resp = [{'jsonrpc': '2.0', 'id': 1, 'result': 0}, {'jsonrpc': '2.0', 'id': 2, 'error': {'code': 5, 'message': 'e'}}]
        for x in ALPHA:
            if isinstance(x, str) and x == ABSENT:
                continue
            for pos in range(3):
                yield {'kind': 'batch_request', 'value': good_req[:pos] + [x] + good_req[pos:]}
                yield {'kind': 'batch_response', 'value': good_resp[:pos] + [x] + good_resp[pos:]}
        # an OBJECT where a response array is expected: only a well-formed batch-level error (version, null id, error, no result) may pass
        for j, i in itertools.product(ALPHA, repeat=2):
            for r in (ABSENT, None, 0):
                for e in [ABSENT, None, 1, 'x', [], {}] + ERR_OBJECTS:
                    yield {'kind': 'batch_response', 'value': obj(jsonrpc=j, id=i, result=r, error=e)}

    def enum_shards(self, tier: str) -> int:
        return 16

    def enumerate_shard(self, tier: str, shard: int, nshards: int):
        for n, spec in enumerate(self._enum_all()):
            if n % nshards == shard:
                yield spec
        # the thorough tier adds the response x full error-object product for a canonical envelope
        for n, (c, m, d) in enumerate(itertools.product(ALPHA, repeat=3)):
            if n % nshards == shard:
                for i in (1, None, ABSENT):
                    for r in (ABSENT, None, 0):
                        yield {'kind': 'response', 'value': obj(jsonrpc='2.0', id=i, result=r, error=obj(code=c, message=m, data=d))}

    def exhaustive_note(self, tier: str) -> str:
        return "request / response / error / batch-level-error member-alphabet products enumerated completely (303k objects); batches, nested payloads and histories are sampled"

    def strategy(self, tier: str):
        a = st.sampled_from(ALPHA)
        anyv = st.one_of(a, jg.json_value(8))
        extra = st.dictionaries(st.sampled_from(['x', 'extra', 'error_', 'ID', 'Jsonrpc', 'data', 'result2']), jg.json_value(3), max_size=2)

        def with_extra(base):
            return st.builds(lambda b, e: {**e, **b} if isinstance(b, dict) else b, base, extra)

        mostly = lambda good, other: st.one_of(st.just(good), st.just(good), st.just(good), other)  # noqa: E731
        req = st.builds(
            obj, jsonrpc=mostly('2.0', a), id=st.one_of(jg.valid_ids(), a), method=mostly('x', st.one_of(a, jg.strings())),
            params=st.one_of(st.just(ABSENT), jg.json_container(), a),
        )
        err = st.builds(
            obj, code=st.one_of(jg.integers(), st.sampled_from([-32700, -32600, -32601, -32602, -32603, -32000, 2001]), a),
            message=st.one_of(jg.strings(), a), data=st.one_of(st.just(ABSENT), anyv),
        )
        resp = st.one_of(
            st.builds(obj, jsonrpc=mostly('2.0', a), id=st.one_of(jg.valid_ids(), a), result=anyv, error=st.just(ABSENT)),
            st.builds(obj, jsonrpc=mostly('2.0', a), id=st.one_of(jg.valid_ids(), a), result=st.just(ABSENT), error=jg.weighted(err, err, a)),
            st.builds(obj, jsonrpc=mostly('2.0', a), id=st.one_of(jg.valid_ids(), a), result=anyv, error=st.one_of(err, a)),
        )
        small_id = st.sampled_from([ABSENT, None, 0, 1, 2, '1', '', 1, 1])
        good_req = st.builds(obj, jsonrpc=st.just('2.0'), id=small_id, method=st.just('m'), params=st.sampled_from([ABSENT, [], [1], {'a': 1}]))
        good_resp = st.one_of(
            st.builds(obj, jsonrpc=st.just('2.0'), id=small_id, result=jg.scalars(False)),
            st.builds(obj, jsonrpc=st.just('2.0'), id=small_id, error=st.just({'code': 5, 'message': 'e'})),
        )

        def batch_of(good, bad):
            # mostly valid elements (so duplicates and accepted batches are frequent), sometimes one deviant element
            return st.one_of(
                st.lists(good, min_size=1, max_size=3),
                st.lists(good, min_size=1, max_size=3),
                st.builds(lambda xs, b, pos: xs[:pos % (len(xs) + 1)] + [b] + xs[pos % (len(xs) + 1):],
                          st.lists(good, max_size=2), bad, st.integers(0, 3)),
                st.just([]),
            )

        breq = batch_of(good_req, st.one_of(req, jg.scalars(False)))
        bresp = batch_of(good_resp, st.one_of(resp, jg.scalars(False)))
        batch_err = st.builds(
            obj, jsonrpc=mostly('2.0', a), id=st.sampled_from([ABSENT, None, None, 1]), error=st.one_of(err, a),
            result=st.sampled_from([ABSENT, ABSENT, ABSENT, None, 0, 1]),
        )
        hid = st.sampled_from([None, 0, 1, 2, '1', ''])
        op = st.one_of(st.tuples(st.just('append'), hid), st.tuples(st.just('extend'), st.lists(hid, max_size=3)))
        history = st.fixed_dictionaries({
            'kind': st.just('history'), 'cls': st.sampled_from(['request', 'response']),
            'init': st.lists(hid, max_size=2, unique_by=lambda x: (type(x).__name__, x) if x is not None else object()),
            'ops': st.lists(op, min_size=1, max_size=5).map(lambda ops: [list(o) for o in ops]),
        })

        def case(kind, s):
            return s.map(lambda v: {'kind': kind, 'value': v})

        return st.one_of(
            case('request', with_extra(req)), case('response', with_extra(resp)), case('error', with_extra(err)),
            case('request', anyv.filter(lambda v: v != ABSENT)), case('response', anyv.filter(lambda v: v != ABSENT)),
            case('error', anyv.filter(lambda v: v != ABSENT)),
            case('batch_request', breq), case('batch_request', anyv.filter(lambda v: v != ABSENT)),
            case('batch_response', bresp), case('batch_response', batch_err),
            case('batch_response', anyv.filter(lambda v: v != ABSENT)),
            history, history,
        )

    def corpus(self):
        return [
            {'kind': 'response', 'value': {'jsonrpc': '2.0', 'id': 1, 'result': 0, 'error': {'code': 1, 'message': 'm'}}},
            {'kind': 'error', 'value': {'code': 0, 'message': 'm'}},
            {'kind': 'error', 'value': {'code': 1, 'message': ''}},
            {'kind': 'request', 'value': {'jsonrpc': '2.0', 'id': True, 'method': 'm'}},
            {'kind': 'response', 'value': {'jsonrpc': '2.0', 'id': False, 'result': 1}},
            {'kind': 'error', 'value': {'code': True, 'message': 'm'}},
            {'kind': 'batch_request', 'value': []},
            {'kind': 'batch_request', 'value': [{'jsonrpc': '2.0', 'id': 1, 'method': 'a'}, {'jsonrpc': '2.0', 'id': 1, 'method': 'b'}]},
            {'kind': 'batch_request', 'value': [{'jsonrpc': '2.0', 'id': 1, 'method': 'a'}, {'jsonrpc': '2.0', 'id': '1', 'method': 'b'}]},
            {'kind': 'batch_response', 'value': {'jsonrpc': '2.0', 'id': None, 'error': {'code': -32600, 'message': 'Invalid Request'}}},
            {'kind': 'batch_response', 'value': {'jsonrpc': '2.0', 'id': None, 'result': 0, 'error': {'code': -32600, 'message': 'x'}}},
            *[{'kind': 'deep', 'carrier': c, 'depth': d, 'shape': s} for c in ('request', 'batch_request', 'response', 'error') for d in (100, 400, 900) for s in ('list', 'dict', 'mixed')],
            {'kind': 'history', 'cls': 'request', 'init': [1], 'ops': [['extend', [2, 1]], ['append', 2]]},
            {'kind': 'history', 'cls': 'response', 'init': [], 'ops': [['extend', [0, 0]], ['append', 0], ['append', 0]]},
        ]

    # ---- execution + oracle ---------------------------------------------------------------------

    def run_case(self, spec: Any) -> Outcome:
        kind = spec['kind']
        if kind == 'history':
            return self._run_history(spec)
        if kind == 'deep':
            return self._run_deep(spec)
        v = spec['value']
        fn = {
            'request': pjrpc.Request.from_json, 'response': pjrpc.Response.from_json, 'error': JsonRpcError.from_json,
            'batch_request': pjrpc.BatchRequest.from_json, 'batch_response': pjrpc.BatchResponse.from_json,
        }[kind]
        try:
            got, exc = fn(v), None
        except (DeserializationError, IdentityError) as e:
            got, exc = None, e
        except Exception as e:  # any other exception type is a violation
            return Outcome([Disc(f"C06/{kind}/wrong-exception/{type(e).__name__}", f"{type(e).__name__}: {e} for {jg.short(v)}")],
                           True, [f"{kind}/crash"])
        verdict, discs = getattr(self, f"_judge_{kind}")(v, got, exc)
        nontrivial = deviates(kind, v) if kind in ('request', 'response', 'error') else True
        return Outcome(discs, nontrivial, [f"{kind}/{verdict}"])

    def _run_deep(self, spec: Any) -> Outcome:
        """a valid message whose payload (params / result / error data) is nested hundreds of levels deep - a JSON value the json module
        decodes without trouble: it is accepted, and the payload the message carries is that value"""
        depth, shape, carrier = spec['depth'], spec['shape'], spec['carrier']
        payload = jg.nested(depth, 1, shape)
        if carrier == 'request':
            doc: Any = {'jsonrpc': '2.0', 'id': 1, 'method': 'm', 'params': payload if isinstance(payload, (list, dict)) else [payload]}
            fn, get = pjrpc.Request.from_json, (lambda m: m.params)
        elif carrier == 'batch_request':
            doc = [{'jsonrpc': '2.0', 'id': 1, 'method': 'm', 'params': payload}]
            fn, get = pjrpc.BatchRequest.from_json, (lambda m: m[0].params)
        elif carrier == 'response':
            doc = {'jsonrpc': '2.0', 'id': 1, 'result': payload}
            fn, get = pjrpc.Response.from_json, (lambda m: m.result)
        else:
            doc = {'code': 5, 'message': 'm', 'data': payload}
            fn, get = JsonRpcError.from_json, (lambda m: m.data)
        where = f"{carrier} with a payload nested {depth} levels ({shape})"
        try:
            msg = fn(doc)
        except Exception as e:
            return Outcome([Disc(f"C06/{carrier}/wrong-exception/{type(e).__name__}", f"{type(e).__name__}: {str(e)[:200]} for a valid {where}")], True, ['deep/crash'])
        got, n = get(msg), 0
        while isinstance(got, (list, dict)) and got:      # iterative descent (no recursion in the harness)
            got = got[0] if isinstance(got, list) else next(iter(got.values()))
            n += 1
        discs = [] if (n == depth and got == 1) else [Disc(f"C06/{carrier}/deep-payload-changed", f"descended {n} levels to {got!r} | {where}")]
        return Outcome(discs, True, ['deep/accepted', f'deep/{carrier}'])

    # each judge returns (class label, discrepancies)

    def _expect(self, kind: str, v: Any, problems: List[str], got: Any, exc: Optional[Exception], dup: bool = False):
        if problems:
            if exc is None:
                return [Disc(f"C06/{kind}/accepted-invalid/{problems[0]}", f"accepted {jg.short(v)} -> {got!r}; problems={problems}")]
            if not isinstance(exc, DeserializationError) and not (dup and isinstance(exc, IdentityError)):
                return [Disc(f"C06/{kind}/wrong-error-class/{type(exc).__name__}", f"{jg.short(v)} problems={problems}")]
            return []
        if dup:
            if exc is None:
                return [Disc(f"C06/{kind}/accepted-duplicate-ids", f"accepted {jg.short(v)}")]
            if not isinstance(exc, IdentityError):
                return [Disc(f"C06/{kind}/duplicate-ids-wrong-error/{type(exc).__name__}", f"{jg.short(v)}: {exc}")]
            return []
        if exc is not None:
            return [Disc(f"C06/{kind}/rejected-valid", f"{type(exc).__name__}: {exc} for {jg.short(v)}")]
        return None  # accepted and valid: caller compares the members

    def _cmp_request(self, v: Dict[str, Any], r: Any, kind: str = 'request') -> List[Disc]:
        d = []
        if not isinstance(r, pjrpc.Request):
            return [Disc(f"C06/{kind}/not-a-request-object", repr(r))]
        if r.method != v['method']:
            d.append(Disc(f"C06/{kind}/field-mismatch/method", f"{r.method!r} vs {v['method']!r}"))
        if not jg.jeq(r.id, v.get('id')):
            d.append(Disc(f"C06/{kind}/field-mismatch/id", f"{r.id!r} vs {v.get('id')!r}"))
        if 'params' in v:
            if not jg.jeq(r.params, v['params']):
                d.append(Disc(f"C06/{kind}/field-mismatch/params", f"{r.params!r} vs {v['params']!r}"))
        elif r.params not in (None, [], {}, ()):
            d.append(Disc(f"C06/{kind}/field-mismatch/params-invented", f"{r.params!r}"))
        if r.is_notification != (v.get('id') is None):
            d.append(Disc(f"C06/{kind}/field-mismatch/is_notification", ''))
        return d

    def _cmp_error(self, v: Dict[str, Any], e: Any, kind: str, base: type = JsonRpcError) -> List[Disc]:
        d = []
        if not isinstance(e, JsonRpcError):
            return [Disc(f"C06/{kind}/not-an-error-object", repr(e))]
        if not jg.jeq(e.code, v['code']):
            d.append(Disc(f"C06/{kind}/field-mismatch/code", f"{e.code!r} vs {v['code']!r}"))
        if not jg.jeq(e.message, v['message']):
            d.append(Disc(f"C06/{kind}/field-mismatch/message", f"{e.message!r} vs {v['message']!r}"))
        if 'data' in v:
            if e.data is UNSET or not jg.jeq(e.data, v['data']):
                d.append(Disc(f"C06/{kind}/field-mismatch/data", f"{e.data!r} vs {v['data']!r}"))
        elif e.data is not UNSET:
            d.append(Disc(f"C06/{kind}/field-mismatch/data-invented", f"{e.data!r}"))
        if type(e) is not typed_default(v['code']):
            d.append(Disc(f"C06/{kind}/error-class", f"{type(e).__name__} for code {v['code']}"))
        return d

    def _cmp_response(self, v: Dict[str, Any], r: Any, kind: str = 'response') -> List[Disc]:
        d = []
        if not isinstance(r, pjrpc.Response):
            return [Disc(f"C06/{kind}/not-a-response-object", repr(r))]
        if not jg.jeq(r.id, v.get('id')):
            d.append(Disc(f"C06/{kind}/field-mismatch/id", f"{r.id!r} vs {v.get('id')!r}"))
        if 'result' in v:
            if not r.is_success or r.is_error or r.error is not UNSET:
                d.append(Disc(f"C06/{kind}/field-mismatch/success-flag", repr(r)))
            elif not jg.jeq(r.result, v['result']):
                d.append(Disc(f"C06/{kind}/field-mismatch/result", f"{r.result!r} vs {v['result']!r}"))
        else:
            if r.is_success or not r.is_error:
                d.append(Disc(f"C06/{kind}/field-mismatch/error-flag", repr(r)))
            else:
                d.extend(self._cmp_error(v['error'], r.error, kind))
        return d

    def _judge_request(self, v, got, exc):
        problems = wf.request_problems(v)
        d = self._expect('request', v, problems, got, exc)
        if d is None:
            return 'valid', self._cmp_request(v, got)
        return ('invalid' if problems else 'valid'), d

    def _judge_response(self, v, got, exc):
        problems = wf.response_problems(v)
        d = self._expect('response', v, problems, got, exc)
        if d is None:
            return 'valid', self._cmp_response(v, got)
        return ('invalid' if problems else 'valid'), d

    def _judge_error(self, v, got, exc):
        problems = wf.error_problems(v)
        d = self._expect('error', v, problems, got, exc)
        if d is None:
            return 'valid', self._cmp_error(v, got, 'error')
        return ('invalid' if problems else 'valid'), d

    @staticmethod
    def _dups(ids: List[Any]) -> bool:
        seen = []
        for i in ids:
            if i is None:
                continue
            if any(type(i) is type(s) and i == s for s in seen):
                return True
            seen.append(i)
        return False

    def _judge_batch_request(self, v, got, exc):
        if not isinstance(v, list):
            problems = ['not-an-array']
        elif not v:
            problems = ['empty-batch']
        else:
            problems = [p for el in v for p in wf.request_problems(el)]
        dup = isinstance(v, list) and self._dups([el.get('id') for el in v if isinstance(el, dict)])
        d = self._expect('batch_request', v, problems, got, exc, dup)
        if d is None:
            discs = []
            if not isinstance(got, pjrpc.BatchRequest) or len(got) != len(v):
                discs.append(Disc("C06/batch_request/length", f"{got!r} for {jg.short(v)}"))
            else:
                for el, r in zip(v, got):
                    discs.extend(self._cmp_request(el, r, 'batch_request'))
            return 'valid', discs
        return ('invalid' if problems else 'duplicate' if dup else 'valid'), d

    def _judge_batch_response(self, v, got, exc):
        if isinstance(v, dict):
            # only a batch-level error object (id null, error member) may be accepted, and only a valid one
            problems = wf.response_problems(v)
            if not problems and not ('error' in v and v.get('id') is None):
                problems = ['object-is-not-a-batch-level-error']
            d = self._expect('batch_response', v, problems, got, exc)
            if d is None:
                discs = []
                if not isinstance(got, pjrpc.BatchResponse) or got.is_success or len(got) != 0:
                    discs.append(Disc("C06/batch_response/batch-error-flags", repr(got)))
                else:
                    discs.extend(self._cmp_error(v['error'], got.error, 'batch_response'))
                return 'batch-error', discs
            return 'invalid', d
        if not isinstance(v, list):
            problems = ['not-an-array']
        else:
            problems = [p for el in v for p in wf.response_problems(el)]
        dup = isinstance(v, list) and self._dups([el.get('id') for el in v if isinstance(el, dict)])
        if isinstance(v, list) and not v:
            return 'empty-undecided', []
        d = self._expect('batch_response', v, problems, got, exc, dup)
        if d is None:
            discs = []
            if not isinstance(got, pjrpc.BatchResponse) or len(got) != len(v) or not got.is_success:
                discs.append(Disc("C06/batch_response/length", f"{got!r} for {jg.short(v)}"))
            else:
                for el, r in zip(v, got):
                    discs.extend(self._cmp_response(el, r, 'batch_response'))
            return 'valid', discs
        return ('invalid' if problems else 'duplicate' if dup else 'valid'), d

    # ---- histories --------------------------------------------------------------------------------

    def _run_history(self, spec: Any) -> Outcome:
        is_req = spec['cls'] == 'request'
        counter = itertools.count()

        def make(i):
            n = next(counter)
            return pjrpc.Request(f"m{n}", [n], i) if is_req else pjrpc.Response(i, result=n)

        def ident(m):
            return (m.method if is_req else m.result, m.id)

        init = [make(i) for i in spec['init']]
        batch = pjrpc.BatchRequest(*init) if is_req else pjrpc.BatchResponse(*init)
        model = [ident(m) for m in init]
        mids = [i for i in spec['init'] if i is not None]
        discs: List[Disc] = []
        rejected_seen, rejected_then_accepted = False, False
        ops = [tuple(o) for o in spec['ops']] + [('append', i) for i in (0, 1, 2, '1', '', None)]  # final probes
        for step, (op, arg) in enumerate(ops):
            ids = [arg] if op == 'append' else list(arg)
            msgs = [make(i) for i in ids]
            new = [i for i in ids if i is not None]
            expect_reject = self._dups(mids + new)
            try:
                if op == 'append':
                    batch.append(msgs[0])
                else:
                    batch.extend(msgs)
                raised = None
            except IdentityError as e:
                raised = e
            except Exception as e:
                discs.append(Disc(f"C06/history/wrong-exception/{type(e).__name__}", f"step {step} {op} {arg!r}: {e}"))
                break
            if expect_reject and raised is None:
                discs.append(Disc("C06/history/duplicate-accepted", f"step {step}: {op} {arg!r} onto ids {mids!r}"))
                break
            if not expect_reject and raised is not None:
                discs.append(Disc("C06/history/fresh-id-rejected", f"step {step}: {op} {arg!r} onto ids {mids!r}: {raised}"))
                break
            if raised is None:
                model.extend(ident(m) for m in msgs)
                mids.extend(new)
                if rejected_seen:
                    rejected_then_accepted = True
            else:
                rejected_seen = True
            if [ident(m) for m in batch] != model or len(batch) != len(model):
                discs.append(Disc("C06/history/contents-changed", f"step {step}: {op} {arg!r}: {[ident(m) for m in batch]!r} vs model {model!r}"))
                break
        classes = ['history/any']
        if rejected_then_accepted:
            classes.append('history/rejected-then-accepted')
        return Outcome(discs, rejected_then_accepted, classes)


CHECK = C06()

MANIFEST = dict(
    technique="property-based testing (Hypothesis) + exhaustive enumeration of member-alphabet products against independent validity predicates; model-based append/extend histories",
    level_text=(
        "Every request / response / error object over the 16-value member alphabet (286k objects) is deserialised and judged by an "
        "independent validity predicate in both tiers (exhaustive over that space); batches, nested payloads, extra members, arbitrary "
        "JSON values and append/extend histories are sampled by Hypothesis and compared with a list+set model. Shows absence of "
        "violations on the explored space only."
    ),
    level_note="trusts pbt/wellformed.py (written from the JSON-RPC 2.0 spec and the property text) and python's json module; "
               "absent response id and empty response arrays are left undecided",
)
