"""
C01 - every request text gets nothing or a well-formed JSON-RPC 2.0 response document plus agreeing
error codes; the dispatcher never raises.
"""

from typing import Any

from hypothesis import strategies as st

from pbt import docs, refserver as ref, serverharness as sh, stdreg
from pbt.runner import Check, Outcome


def batch_limit(text: Any, choice: Any) -> Any:
    """max_batch_size 'at and around the batch length': choice is None, an absolute number, or a string offset '-1' / '0' / '+1'
    relative to the length of the generated batch"""
    if isinstance(choice, str):
        doc = text.get('doc') if isinstance(text, dict) else None
        if isinstance(doc, list):
            return max(0, len(doc) + int(choice))
        return None
    return choice


CODEC_CHOICES = ['default', 'default', 'default', 'classes', 'functions']    # pbt/codecs.py
BATCH_LIMITS = [None, None, None, 0, 1, 2, 3, 4, 6, '-1', '0', '0', '+1']


def dispatch_case(registry_kind: str = 'std'):
    """strategy of dispatch case specs over the standard registry (shared with C02, C03, C11, C13)"""
    def for_kind(kind: str, plain: bool = False):
        reg = stdreg.std_registry('sync' if plain else kind)
        return st.builds(
            lambda text, beh, mbs, codec: {'dispatcher': kind, 'plain': plain, 'sequential': kind == 'async' and (len(beh) + len(codec)) % 3 == 0, 'max_batch_size': batch_limit(text, mbs), 'behaviours': beh, 'text': text, 'codec': codec,
                                           'logging': 'debug' if (len(beh) + (mbs is None)) % 3 == 0 else 'off'},
            docs.document(reg), stdreg.behaviours(True), st.sampled_from(BATCH_LIMITS), st.sampled_from(CODEC_CHOICES),
        )
    return st.one_of(for_kind('sync'), for_kind('async'), for_kind('async', True))


def doc_classes(spec: Any, exp: ref.Expectation) -> list:
    ts = spec['text']
    classes = [exp.klass, f"dispatcher/{spec['dispatcher']}"]
    if spec.get('plain'):
        classes.append('dispatcher/async-serving-plain-functions')
    if ts.get('huge'):
        classes.append('huge-literal')
    if 'doc' in ts and docs.doc_depth(ts['doc']) >= 32:
        classes.append('depth>=32')
    if spec.get('max_batch_size') is not None:
        classes.append('max_batch_size/set')
    if spec.get('codec', 'default') != 'default':
        classes.append(f"codec/{spec['codec']}")
    if spec.get('logging') == 'debug':
        classes.append('logging/debug')
    for el in exp.elements:
        classes.append(el.klass)
    return classes


class C01(Check):
    pid = 'C01'
    level = 'exploration'
    fuzz_seconds = 120   # thorough tier: extra Atheris campaign
    quick_examples = 4000
    thorough_examples = 60000
    rule = (
        "[round 16: clean batches of 10-33 elements] [drawn in addition since rounds 13-15: async dispatcher serving plain functions and its sequential batch mode; request objects with 1..3 deviations (several extension members); every scripted exception type once per serving mode; a coroutine that does not finish within 30 s counts as raised] "
        "cases: request texts rendered from generated documents (single request objects and arrays of 0..6 elements aimed at a "
        "15-method registry: valid calls / notifications, non-binding params, unknown methods, member-alphabet deviations of "
        "jsonrpc/id/method/params, non-object elements, duplicate ids), arbitrary JSON values, containers nested 8..62 levels, integer "
        "literals of 4300/4301/10000 digits spliced at id/params/nested/jsonrpc/method, float literals beyond the double range (1e400) at id/jsonrpc/method, mangled texts (truncation, stray bytes, single "
        "quotes, trailing commas, BOM, unbalanced brackets) and raw non-JSON strings x sync/async dispatcher x max_batch_size "
        "{unset,0,1,2,3,4,6} x JSON codec configured on the dispatcher {library default, application encoder / decoder classes, application loader / dumper functions: floats parsed as Decimal and written as tagged strings} x library logging disabled / at DEBUG with every record formatted x method behaviours (return any JSON value, raise protocol error, raise 30 exception types incl. one that cannot be printed). Oracle: "
        "dispatch never raises; returns None or (str, tuple); the text parses and satisfies the independent response-document validator "
        "(non-empty array, jsonrpc '2.0', id string/number/null, exactly one of result/error, integer code + string message); codes agree "
        "with the document. non-trivial = the text is not valid JSON (and not empty) or parses to an object/array; distinct = distinct spec."
    )
    assumptions = [
        "methods return JSON-encodable values; no user middleware / error handler raises (the property's proviso)",
        "nesting <= 64 levels (python's json recursion limit is outside the quantifier)",
        "NaN / Infinity tokens are not generated; overflowing float literals are (also inside params, where an echoing method returns them: the response text is parsed with the stdlib decoder, a non-finite id is a violation, a non-finite payload is not)",
    ]
    trusted_base = ['pbt/wellformed.py', 'python json (response text parsed with the stdlib decoder)']
    required_classes = [
        'doc/not-json', 'doc/json-scalar', 'doc/invalid-request-object', 'doc/single-call', 'doc/single-notification',
        'doc/batch-accepted', 'doc/batch-accepted/all-notifications', 'doc/batch-rejected/empty', 'doc/batch-rejected/invalid-element',
        'doc/batch-rejected/duplicate-ids', 'doc/batch-rejected/too-large', 'huge-literal', 'depth>=32',
        'call/raises-exception', 'call/raises-protocol-error', 'notification/raises-exception', 'dispatcher/sync', 'dispatcher/async', 'dispatcher/async-serving-plain-functions',
        'codec/classes', 'codec/functions', 'logging/debug',
    ]

    def strategy(self, tier: str):
        return dispatch_case()

    def corpus(self):
        t = lambda doc, **kw: {'doc': doc, 'ascii': True, 'indent': 0, 'pad': '', 'huge': None, 'mangle': None, **kw}  # noqa: E731
        out = []
        for kind in ('sync', 'async'):
            base = {'dispatcher': kind, 'max_batch_size': None, 'behaviours': {}}
            out += [
                {**base, 'text': t({'jsonrpc': '2.0', 'id': 1, 'method': 'echo', 'params': [docs.PLACEHOLDER]}, huge=4301)},
                {**base, 'text': t([{'jsonrpc': '2.0', 'method': 'noargs'}, {'jsonrpc': '2.0', 'method': 'noargs'}])},
                {**base, 'text': t({'jsonrpc': '2.0', 'id': True, 'method': 'noargs'})},
                {**base, 'text': t({'jsonrpc': '2.0', 'id': docs.PLACEHOLDER, 'method': 'noargs'}, huge='overflow')},
                {**base, 'text': t([{'jsonrpc': '2.0', 'id': 1, 'method': 'noargs'}, {'jsonrpc': docs.PLACEHOLDER, 'id': 2, 'method': 'noargs'}], huge='overflow')},
                {**base, 'text': t({'jsonrpc': '2.0', 'id': 1, 'method': 'echo', 'params': [docs.PLACEHOLDER]}, huge='overflow')},
                {**base, 'text': t({'jsonrpc': '2.0', 'id': 1, 'method': 'echo', 'params': {'a': [docs.PLACEHOLDER]}}, huge='overflow')},
                {**base, 'text': {'raw': '{"jsonrpc":"2.0","method":"echo","params":["\ud800"],"id":1}'}},
                {**base, 'text': {'raw': '\udc00'}},
                {**base, 'codec': 'classes', 'text': t([{'jsonrpc': '2.0', 'id': 1, 'method': 'echo', 'params': [1.5, {'a': [0.25]}]}, {'jsonrpc': '2.0', 'id': 1.5, 'method': 'echo'}])},
                {**base, 'codec': 'functions', 'text': t({'jsonrpc': '2.0', 'id': 1, 'method': 'echo', 'params': {'a': 2.5}})},
                {**base, 'behaviours': {'ret': {'kind': 'return', 'value': {'$py': 'mixed-keys'}}}, 'text': t([{'jsonrpc': '2.0', 'id': 1, 'method': 'ret'}, {'jsonrpc': '2.0', 'id': 2, 'method': 'ret'}])},
                {**base, 'behaviours': {'ret': {'kind': 'return', 'value': {'$py': 'odd-keys'}}}, 'text': t({'jsonrpc': '2.0', 'id': 1, 'method': 'ret'})},
                {**base, 'behaviours': {'ret': {'kind': 'return', 'value': {'$py': 'tuple'}}}, 'codec': 'functions', 'text': t({'jsonrpc': '2.0', 'id': 1, 'method': 'ret'})},
                {**base, 'behaviours': {'rpc_err': {'kind': 'raise_rpc', 'error': {'cls': 'QuotaError', 'code': None, 'message': None, 'data': {'value': {'limit': 3}}}}}, 'text': t([{'jsonrpc': '2.0', 'id': 1, 'method': 'rpc_err'}, {'jsonrpc': '2.0', 'method': 'rpc_err'}])},
                {**base, 'text': t([{'jsonrpc': '2.0', 'id': 1, 'method': 'js.tag', 'params': [5]}, {'jsonrpc': '2.0', 'id': 2, 'method': 'js.tag', 'params': {'t': ['x']}},
                                    {'jsonrpc': '2.0', 'id': 3, 'method': 'js.tag', 'params': ['ok', 1]}, {'jsonrpc': '2.0', 'method': 'js.tag', 'params': {'t': None}}])},
                {**base, 'text': t({'jsonrpc': '2.0', 'id': 1, 'method': 'js.tag', 'params': {'t': {'deep': [1, 2]}}})},
                {**base, 'text': t([{'jsonrpc': '2.0', 'id': 1, 'method': 'noargs', 'meta': {'a': 1}, 'auth': 'x'},
                                    {'jsonrpc': '2.0', 'method': 'noargs', 'meta': 1, 'auth': None, 'trace': [1]}])},
                {**base, 'logging': 'debug', 'text': t({'jsonrpc': '2.0', 'id': 1, 'method': 'noargs', 'meta': 1, 'auth': 2})},
                {**base, 'text': {'raw': ''}},
                {**base, 'text': {'raw': '[]'}},
                {**base, 'text': t([1])},
                {**base, 'text': t({'jsonrpc': '2.0', 'id': 1, 'method': 'boom'})},
                {**base, 'text': t({'jsonrpc': '2.0', 'id': 1, 'method': 'rpc_err'}),
                 'behaviours': {'rpc_err': {'kind': 'raise_rpc', 'error': {'cls': 'JsonRpcError', 'code': 0, 'message': '', 'data': {'absent': True}}}}},
            ]
        out += stdreg.exception_corpus('MARKER-c01-zq') + stdreg.rpc_error_corpus()
        return out

    def run_case(self, spec: Any) -> Outcome:
        obs = sh.observe(spec)
        exp = ref.expect(obs.request_text, sh.registry_of(spec), sh.behaviours_of(spec), spec.get('max_batch_size'), spec.get('codec', 'default'))
        discs = sh.totality_discs('C01', obs)
        nontrivial = exp.klass != 'doc/not-json' or bool(obs.request_text.strip())
        return Outcome(discs, nontrivial, doc_classes(spec, exp))


CHECK = C01()

MANIFEST = dict(
    technique="property-based testing (Hypothesis) of dispatch() over structured + mangled request texts with an independent response-document validator",
    level_text=(
        "Generated request texts of every class named in the property (non-JSON, every JSON shape, member-alphabet deviations, batches, "
        "huge integer literals, deep nesting) are dispatched through both dispatchers with varying max_batch_size and method behaviour; "
        "totality and well-formedness of the reply are judged by a validator written from the JSON-RPC 2.0 text. Class counters must all "
        "be non-zero. Sampling: shows no violation in the generated space, not absence."
    ),
    level_note="trusts python's json decoder and pbt/wellformed.py; methods are JSON-returning by construction (the property's proviso)",
)
