"""
C19 - for every send attempt every tracer gets a begin event followed by exactly one completion event (end with the
response, or error with the raised exception), in configuration order, with one trace context per attempt (the caller's
when supplied), and the exception still reaches the caller unchanged.
"""

import itertools
import json
from types import SimpleNamespace
from typing import Any, Dict, List

from hypothesis import strategies as st

import pjrpc

from pbt import clientharness as ch, jsongen as jg
from pbt.runner import Check, Disc, Outcome

LISTED, UNLISTED = 2001, 2002
OUTCOMES = {
    'ok': {'kind': 'ok'}, 'listed-code': {'kind': 'code', 'code': LISTED}, 'unlisted-code': {'kind': 'code', 'code': UNLISTED},
    'listed-exc': {'kind': 'exc', 'exc': 'ExcE'}, 'unlisted-exc': {'kind': 'exc', 'exc': 'ExcU'},
    'not-json': {'kind': 'body', 'body': '{"jsonrpc": "2.0", '}, 'not-response': {'kind': 'body', 'body': '{"foo": 1}'},
    'scalar-body': {'kind': 'body', 'body': '17'}, 'identity': {'kind': 'identity'}, 'base-exc': {'kind': 'base'},
}
NAMES = sorted(OUTCOMES)
RETURNS = ('ok', 'code', 'ok-body', 'ok-identity')     # per-attempt outcomes after which the attempt returns (traced as 'end')


# the ways a caller can start a request and hand over a trace context
ENTRIES = {'single': ['send', 'call', '__call__', 'proxy'], 'notification': ['send', 'notify'],
           'batch': ['send', 'batch.call', 'batch.proxy()', 'batch.proxy.call']}


TRACER_STYLES = ['full', 'full', 'super', 'partial', 'logging-first', 'instance-hooks', 'logging-subclass-last', 'logging-twice']


def strategy_for(n: int) -> Dict[str, Any]:
    return {'attempts': n, 'codes': [LISTED], 'exceptions': ['ExcE'], 'backoff': {'kind': 'periodic', 'interval': 0.5}, 'jitter': []}


class C19(Check):
    pid = 'C19'
    level = 'fault_enumeration'
    quick_examples = 2000
    thorough_examples = 20000
    rule = (
        "[drawn in addition since rounds 13-15: strict on / off; LoggingTracer subclass configured last; two LoggingTracers; sync BaseException outcome over KeyboardInterrupt / SystemExit / GeneratorExit] "
        "cases: per-attempt outcome words over {response ok, response with listed / unlisted error code, listed / unlisted transport exception, "
        "body that is not JSON, body that is not a response (object / scalar), identity mismatch, BaseException (harness BaseException subclass; "
        "asyncio.CancelledError on the async side)} - all words of length n+1 for retry strategies of n = 0..2 attempts (enumerated, both tiers; "
        "n = 3 in thorough) x 0..3 tracers (overriding all three hooks; overriding them and calling the base class; overriding begin / end only; behind the library's LoggingTracer; plain Tracer() objects with hooks attached to the instance) x single / batch / notification x entry point {send with a hand-built request, call, __call__, proxy attribute, notify, batch.send, batch.add().call(), batch.proxy...(), batch.proxy....call()} x caller-supplied vs default trace context x request made normally / from inside an except block of the caller x sync / async (rotating); "
        "plus Hypothesis-drawn configurations. Oracle: the event log is, per attempt, begin by every tracer in configuration order, then "
        "exactly one completion by every tracer in order - end with the returned response object (None for notifications) or error with "
        "the raised exception (identity) - begin and completion of one attempt carry the same context object (the caller's when supplied, "
        "on every attempt); a second request through the same client never sees a default context of the first; the number of attempts matches the retry model; the exception reaching the caller is the one reported. "
        "non-trivial = >= 2 attempts or >= 2 tracers or a failure after the transport returned; distinct = distinct spec."
    )
    assumptions = [
        "tracer callbacks do not raise",
        "listed exceptions are harness transport exceptions (decoding / identity errors are never listed for retry)",
    ]
    trusted_base = ['retry model in pbt/clientharness.py']
    required_classes = ['tracers/0', 'tracers/1', 'tracers/2', 'tracers/3', 'ctx/caller', 'ctx/default', 'kind/single', 'kind/batch',
                        'kind/notification', 'client/sync', 'client/async', 'attempts>=2', 'outcome/base-exc', 'outcome/identity',
                        'outcome/not-json', 'outcome/not-response', 'entry/send', 'entry/call', 'entry/proxy', 'entry/notify',
                        'entry/batch.call', 'entry/batch.proxy()', 'entry/batch.proxy.call', 'caller/inside-except-block',
                        'tracer-style/super', 'tracer-style/partial', 'tracer-style/logging-first', 'tracer-style/instance-hooks', 'tracer-style/logging-subclass-last', 'tracer-style/logging-twice', 'strict/on', 'strict/off']

    def _words(self, maxn: int, shard: int = 0, nshards: int = 1):
        i = 0
        for n in range(0, maxn + 1):
            for word in itertools.product(NAMES, repeat=n + 1):
                for client in ('sync', 'async'):
                    i += 1
                    if i % nshards != shard:
                        continue
                    rk = ['single', 'batch', 'notification'][i % 3]
                    yield {'client': client, 'request': rk, 'tracers': (i // 3) % 4,
                           'ctx': ['caller', 'default'][(i // 12) % 2], 'strategy': strategy_for(n) if n or i % 5 else None,
                           'outcomes': list(word), 'entry': ENTRIES[rk][(i // 7) % len(ENTRIES[rk])], 'in_handler': i % 5 == 0,
                           'tracer_style': TRACER_STYLES[(i // 3) % len(TRACER_STYLES)], 'strict': (i // 2) % 4 != 0, 'base_exc': i // 2}

    def enumerate(self, tier: str):
        return self._words(2) if tier == 'quick' else None

    def enum_shards(self, tier: str) -> int:
        return 16

    def enumerate_shard(self, tier: str, shard: int, nshards: int):
        return self._words(3, shard, nshards)

    def exhaustive_note(self, tier: str) -> str:
        n = 2 if tier == 'quick' else 3
        return f"all per-attempt outcome words of length n+1 over 10 outcomes for n = 0..{n} x sync/async (request kind, tracer count, context mode rotate)"

    def strategy(self, tier: str):
        return st.builds(
            lambda c, r, t, x, n, o, e: {'client': c, 'request': r, 'tracers': t, 'ctx': x, 'strategy': strategy_for(n) if n is not None else None, 'outcomes': o,
                                         'strict': (e + t + len(o[0])) % 3 != 0, 'base_exc': e + t,
                                         'entry': ENTRIES[r][e % len(ENTRIES[r])], 'in_handler': e >= 8, 'tracer_style': TRACER_STYLES[(e + t) % len(TRACER_STYLES)]},
            st.sampled_from(['sync', 'async']), st.sampled_from(['single', 'batch', 'notification']), st.integers(0, 3),
            st.sampled_from(['caller', 'default']), st.sampled_from([None, 0, 1, 2, 3]), st.lists(st.sampled_from(NAMES), min_size=4, max_size=4),
            st.integers(0, 11),
        )

    def run_case(self, spec: Any) -> Outcome:
        kind, rkind = spec['client'], spec['request']
        strict = spec.get('strict', True)
        outcomes = [dict(OUTCOMES[n]) for n in spec['outcomes']]
        names = list(spec['outcomes'])
        for o in outcomes:
            if rkind == 'notification' and o['kind'] in ('code', 'identity'):
                o['kind'] = 'ok'
            if rkind == 'notification' and o['kind'] == 'body':
                # strict client: BaseError("unexpected response"); a non-strict client ignores whatever came back for a notification
                o['kind'] = 'notify-body' if strict else 'ok-body'
            if o['kind'] == 'identity' and not strict:
                o['kind'] = 'ok-identity'   # a non-strict client does not compare ids: the attempt returns the response
        s = spec['strategy']
        sends, _, final_idx = ch.retry_model(s, outcomes, 'single' if rkind != 'notification' else 'notification')
        if rkind == 'batch':
            # element-level error codes are not batch errors -> not retried
            sends, _, final_idx = ch.retry_model(s, outcomes, 'batch')
        raised: Dict[int, BaseException] = {}

        def transport(text: str, is_notification: bool, k: int):
            o = outcomes[min(k, len(outcomes) - 1)]
            if o['kind'] == 'exc':
                raised[k] = ch.EXC[o['exc']](f"attempt {k}")
                raise raised[k]
            if o['kind'] == 'base':
                # a BaseException that is no Exception: cancellation on the async side; on the sync side a harness class, an interrupt,
                # an exit request or a generator being closed (the interrupt / exit classes are not raised inside the event loop, which
                # treats them specially)
                names_ = ['CancelledError', 'HarnessBaseExc'] if kind == 'async' else ['HarnessBaseExc', 'KeyboardInterrupt', 'SystemExit', 'GeneratorExit']
                raised[k] = ch.EXC[names_[spec.get('base_exc', 0) % len(names_)]](f"attempt {k}")
                raise raised[k]
            if o['kind'] in ('body', 'notify-body', 'ok-body'):
                return o['body']
            if is_notification:
                return None
            doc = json.loads(text)
            els = [x for x in doc if 'id' in x] if isinstance(doc, list) else [doc]
            out = []
            for n, el in enumerate(els):
                rid = el['id']
                if o['kind'] in ('identity', 'ok-identity') and n == 0:
                    rid = 'other-id'
                if o['kind'] == 'code' and n == 0:
                    out.append({'jsonrpc': '2.0', 'id': rid, 'error': {'code': o['code'], 'message': 'e', 'data': {'attempt': k}}})
                else:
                    out.append({'jsonrpc': '2.0', 'id': rid, 'result': {'attempt': k}})
            return json.dumps(out if isinstance(doc, list) else out[0])

        log: List[List[Any]] = []
        style = spec.get('tracer_style', 'full')
        tracers = ch.make_tracers(spec['tracers'], log, 'full' if style in ('logging-first', 'logging-twice') else style)
        if style == 'logging-first' and tracers:
            # the library's own LoggingTracer configured ahead of the application's tracers (it is not recorded; it must not disturb them)
            from pjrpc.client.tracer import LoggingTracer
            tracers = [LoggingTracer()] + tracers
        if style == 'logging-twice' and tracers:
            # two of the library's LoggingTracers (one per logger / level) around the application's tracers
            import logging as _logging
            from pjrpc.client.tracer import LoggingTracer
            tracers = [LoggingTracer()] + tracers + [LoggingTracer(logger=_logging.getLogger('pjrpc.client.audit'), level=_logging.INFO)]
        partial = style == 'partial'
        kwargs: Dict[str, Any] = {'tracers': tracers}
        if not strict:
            kwargs['strict'] = False
        if s is not None:
            kwargs['retry_strategy'] = ch.build_strategy(s)
        client = ch.make_client(kind, transport, **kwargs)
        caller_ctx = SimpleNamespace(tag='caller') if spec['ctx'] == 'caller' else None
        entry = spec.get('entry', 'send')
        if entry not in ENTRIES[rkind]:
            entry = 'send'
        req: Any = None      # known only when the caller builds the request object itself
        if rkind == 'batch':
            if entry == 'send':
                req = pjrpc.BatchRequest(pjrpc.Request('m', [1], id=1), pjrpc.Request('n', [2], id=2), pjrpc.Request('note', [3]))
                fn = lambda: client.batch.send(req, _trace_ctx=caller_ctx)  # noqa: E731
            elif entry == 'batch.call':
                fn = lambda: client.batch.add('m', 1).add('n', 2).notify('note', 3).call(_trace_ctx=caller_ctx)  # noqa: E731
            elif entry == 'batch.proxy()':
                fn = lambda: client.batch.proxy.m(1).n(2)(_trace_ctx=caller_ctx)  # noqa: E731
            else:
                fn = lambda: client.batch.proxy.m(1).n(2).call(_trace_ctx=caller_ctx)  # noqa: E731
        elif rkind == 'notification':
            if entry == 'send':
                req = pjrpc.Request('m', [1], id=None)
                fn = lambda: client.send(req, _trace_ctx=caller_ctx)  # noqa: E731
            else:
                fn = lambda: client.notify('m', 1, _trace_ctx=caller_ctx)  # noqa: E731
        else:
            if entry == 'send':
                req = pjrpc.Request('m', [1], id=1)
                fn = lambda: client.send(req, _trace_ctx=caller_ctx)  # noqa: E731
            elif entry == 'call':
                fn = lambda: client.call('m', 1, _trace_ctx=caller_ctx)  # noqa: E731
            elif entry == '__call__':
                fn = lambda: client('m', 1, _trace_ctx=caller_ctx)  # noqa: E731
            else:
                fn = lambda: client.proxy.m(1, _trace_ctx=caller_ctx)  # noqa: E731
        unwraps = entry not in ('send',)      # these notations hand the caller the result (or raise the error), not the response object
        if spec.get('in_handler'):
            # the request is made while the CALLER is handling an unrelated exception (a fallback call inside an except block)
            plain_fn = fn
            if kind == 'async':
                async def _afn():
                    try:
                        raise LookupError('unrelated exception the caller is handling')
                    except LookupError:
                        return await plain_fn()
                fn = _afn  # noqa: E731
            else:
                def _sfn():
                    try:
                        raise LookupError('unrelated exception the caller is handling')
                    except LookupError:
                        return plain_fn()
                fn = _sfn  # noqa: E731

        import contextlib
        from pbt import serverharness as sh
        # with the library's LoggingTracer configured, the library loggers run at DEBUG (its records are really produced and formatted)
        with ch.captured_sleeps(), (sh.debug_logging() if style in ('logging-first', 'logging-subclass-last', 'logging-twice') else contextlib.nullcontext()):
            try:
                value, exc = ch.call(kind, fn), None
            except BaseException as e:  # noqa
                value, exc = None, e

        discs: List[Disc] = []
        where = f"client={kind} strict={strict} request={rkind} entry={entry} tracers={spec['tracers']} style={spec.get('tracer_style', 'full')} ctx={spec['ctx']} attempts={s['attempts'] if s else None} outcomes={names}"
        T = spec['tracers']
        n_sent = len(client.sent)
        if n_sent != sends:
            discs.append(Disc("C19/attempt-count", f"{n_sent} sends, model {sends} | {where}"))
        begins = len([e for e in log if e[0] == 'begin'])
        completions = len([e for e in log if e[0] != 'begin'])
        if begins != completions and not partial:
            discs.append(Disc("C19/begin-and-completion-counts-differ", f"{begins} begins, {completions} completions | {where}"))
        # per attempt structure (a 'partial' tracer does not record error completions: it inherits the library's no-op on_error,
        # so a failing attempt leaves just its begin events - and in particular no 'end')
        def attempt_returns(k: int) -> bool:
            return outcomes[min(k, len(outcomes) - 1)]['kind'] in RETURNS
        sizes = [T * (2 if (attempt_returns(k) or not partial) else 1) for k in range(n_sent)]
        expected_len = sum(sizes)
        if len(log) != expected_len:
            discs.append(Disc("C19/event-count", f"{len(log)} events, expected {expected_len} ({n_sent} attempts x {T} tracers, style {style}) | {where} | {[e[:2] for e in log]}"))
        else:
            pos = 0
            for k in range(n_sent):
                block = log[pos:pos + sizes[k]]
                pos += sizes[k]
                o = outcomes[min(k, len(outcomes) - 1)]
                returns = o['kind'] in RETURNS
                want_kind = 'end' if returns else 'error'
                kinds = [e[0] for e in block]
                idxs = [e[1] for e in block]
                if kinds != ['begin'] * T + [want_kind] * (sizes[k] - T):
                    discs.append(Disc(f"C19/event-kinds/{want_kind}-expected", f"attempt {k}: {kinds} | {where}"))
                    break
                if idxs != (list(range(T)) * 2)[:sizes[k]]:
                    discs.append(Disc("C19/tracer-order", f"attempt {k}: tracer order {idxs} | {where}"))
                    break
                ctxs = {e[2] for e in block}
                if len(ctxs) > 1:
                    discs.append(Disc("C19/context-differs-within-attempt", f"attempt {k} | {where}"))
                if caller_ctx is not None and any(e[3] is not caller_ctx for e in block):
                    discs.append(Disc("C19/caller-context-not-used", f"attempt {k} | {where}"))
                if caller_ctx is None and any(e[3] is None for e in block):
                    discs.append(Disc("C19/no-trace-context", f"attempt {k}: tracers received None instead of a per-request trace context | {where}"))
                if (req is not None and any(e[4] is not req for e in block)) or any(e[4] is not block[0][4] for e in block) or any(e[4] is not log[0][4] for e in block):
                    discs.append(Disc("C19/request-object", f"attempt {k} | {where}"))
                for e in block[T:]:
                    if want_kind == 'error':
                        if k in raised and e[5] is not raised[k]:
                            discs.append(Disc("C19/error-event-carries-other-exception", f"attempt {k}: {e[5]!r} vs raised {raised[k]!r} | {where}"))
                        if k == n_sent - 1 and e[5] is not exc:
                            discs.append(Disc("C19/caller-got-other-exception", f"caller {exc!r}, tracer {e[5]!r} | {where}"))
                    else:
                        if rkind == 'notification':
                            if e[5] is not None:
                                discs.append(Disc("C19/end-event-for-notification-carries-response", f"{e[5]!r} | {where}"))
                        elif k == n_sent - 1 and not unwraps and e[5] is not value:
                            discs.append(Disc("C19/end-event-carries-other-response", f"caller {value!r}, tracer {e[5]!r} | {where}"))
        final = outcomes[min(final_idx, len(outcomes) - 1)]
        if n_sent == sends:
            if final['kind'] in RETURNS:
                if unwraps and final['kind'] == 'code' and rkind != 'notification':
                    # call / proxy notations raise the error the (returned, traced as 'end') response carries
                    if not isinstance(exc, pjrpc.exc.JsonRpcError) or exc.code != final['code']:
                        discs.append(Disc("C19/error-response-not-raised-by-call-notation", f"caller got {value!r} / {exc!r} | {where}"))
                elif exc is not None:
                    discs.append(Disc(f"C19/unexpected-exception/{type(exc).__name__}", f"{exc!r} | {where}"))
            else:
                if exc is None:
                    discs.append(Disc("C19/exception-swallowed", f"returned {value!r} | {where}"))
                elif final_idx in raised and exc is not raised[final_idx]:
                    discs.append(Disc("C19/exception-changed", f"caller {exc!r} raised {raised[final_idx]!r} | {where}"))
        # a second request through the SAME client: a default trace context belongs to one request only
        if T >= 1 and caller_ctx is None and not discs and log and all(e[3] is not None for e in log):
            first_ctx_ids = {e[2] for e in log}
            for e in log:
                setattr(e[3], 'mark_left_by_first_request', True)     # what a tracer typically does: keep state on the context
            mark = len(log)
            with ch.captured_sleeps():
                try:
                    ch.call(kind, fn)
                except BaseException:  # noqa
                    pass
            second = log[mark:]
            if second:
                if any(getattr(e[3], 'mark_left_by_first_request', False) for e in second) or ({e[2] for e in second} & first_ctx_ids):
                    discs.append(Disc("C19/default-context-shared-between-requests", f"the second request's tracer events carry a context of the first request | {where}"))
        classes = ['strict/on' if strict else 'strict/off', f"tracers/{T}", f"ctx/{spec['ctx']}", f"kind/{rkind}", f"client/{kind}", f"entry/{entry}", f"tracer-style/{style}"] + (['caller/inside-except-block'] if spec.get('in_handler') else [])
        if n_sent >= 2:
            classes.append('attempts>=2')
        used = names[:max(n_sent, 1)]
        for nme in used:
            classes.append(f"outcome/{nme}")
        post = any(OUTCOMES[nme]['kind'] in ('body', 'identity') for nme in used) and rkind != 'notification'
        return Outcome(discs, n_sent >= 2 or T >= 2 or post, sorted(set(classes)))


CHECK = C19()

MANIFEST = dict(
    technique="fault-sequence enumeration (all per-attempt outcome words) plus property-based sampling (Hypothesis) with recording tracers, judged against the retry model and an event-structure oracle",
    level_text=(
        "Every per-attempt outcome word (10 outcomes incl. undecodable bodies, identity mismatches and BaseException / cancellation) for "
        "retry strategies of up to 2 (quick) / 3 (thorough) attempts is scripted into sync and async clients carrying 0..3 recording tracers; "
        "the event log must have the exact begin / completion block structure per attempt with object identity of context, request, response "
        "and exception."
    ),
    level_note="trusts the retry model in pbt/clientharness.py; tracers never raise",
)
