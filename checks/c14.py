"""
C14 - with a schema or type validator attached a call is executed iff its arguments bind to the signature and the bound
arguments satisfy the schema / annotations; otherwise -32602 with JSON-encodable data and the body does not run; accepted
arguments reach the method unchanged (or converted when coercion is on); excluded parameters are neither validated nor settable.
"""

import enum
import json
from typing import Any, Dict, List, Optional, Tuple

import pydantic
from hypothesis import strategies as st

import pjrpc.server
from pjrpc.server.validators import jsonschema as vjs
from pjrpc.server.validators import pydantic as vpd

from pbt import jsongen as jg, methods as hm, refserver as ref
from pbt.runner import Check, Disc, Outcome


class Color(enum.Enum):
    RED = 'red'
    GREEN = 'green'


class Point(pydantic.BaseModel):
    x: int
    y: int = 0


class Positive(pydantic.BaseModel):
    n: int

    @pydantic.field_validator('n')
    @classmethod
    def _positive(cls, v: int) -> int:
        if v < 0:
            raise ValueError('must not be negative')
        return v


try:
    from typing import Annotated
except ImportError:   # pragma: no cover
    from typing_extensions import Annotated  # type: ignore

TYPES: Dict[str, Any] = {
    # a constraint that lives in Annotated metadata (what pydantic.Field / conint / PositiveInt are made of)
    'bounded': Annotated[int, pydantic.Field(ge=0, le=10)],
    'int': int, 'str': str, 'float': float, 'bool': bool, 'opt_int': Optional[int], 'list_int': List[int], 'dict_str_int': Dict[str, int],
    'enum': Color, 'model': Point, 'vmodel': Positive, 'any': None,
}
TYPE_VALUES: Dict[str, List[Any]] = {
    'bounded': [5, 0, 10, 11, -1, '3', '12', None, 1000, 5.0],
    'int': [1, 0, -5, '1', 1.0, 1.5, 'abc', None, True, [1], 10**30],
    'str': ['s', '', 1, None, ['s'], True],
    'float': [1.5, 1, '1.5', 'x', None, True, 10**400 if False else 1e308],
    'bool': [True, False, 1, 0, 'yes', 'no', 'maybe', None, 2, 1.0],
    'opt_int': [None, 3, '3', 'x', [], 2.5],
    'list_int': [[], [1, 2], ['1', 2], [1, 'x'], 'nope', None, [[1]], {'a': 1}, [1.0]],
    'dict_str_int': [{}, {'a': 1}, {'a': '1'}, {'a': 'x'}, [], None, {'a': None}],
    'enum': ['red', 'green', 'blue', 1, None, 'RED'],
    'model': [{'x': 1}, {'x': 1, 'y': 2}, {'x': '7'}, {'y': 1}, {'x': 'a'}, {}, None, [1], {'x': 1, 'z': 3}],
    'vmodel': [{'n': 1}, {'n': 0}, {'n': -1}, {'n': '-3'}, {'n': 'a'}, {}, None],
    'any': [1, 'x', None, [1], {'a': 1}, 1.5, True],
}
SCHEMAS: List[Dict[str, Any]] = [
    {'type': 'integer'}, {'type': 'number'}, {'type': 'string'}, {'type': 'boolean'}, {'type': 'array'}, {'type': 'object'}, {'type': 'null'},
    {'enum': [1, 'a', None]}, {'type': 'integer', 'minimum': 0, 'maximum': 10}, {'type': 'number', 'minimum': 0.5}, {'type': 'string', 'minLength': 2},
    {'type': 'array', 'items': {'type': 'integer'}}, {}, {'type': ['integer', 'null']},
    {'type': 'string', 'format': 'ipv4'},     # enforced only when the method's validator arguments carry a format checker
]
SCHEMA_VALUES: List[Any] = [0, 1, -1, 11, 1.0, 1.5, 0.25, True, False, None, '', 'a', 'ab', [], [1, 2], [1, 'x'], [1.0], {}, {'a': 1}, 10**30, '1.2.3.4', '10.0.0.256']


# ---- reference JSON-Schema evaluator for exactly the generated vocabulary (independent of the jsonschema package) -------


def _is_num(v: Any) -> bool:
    return isinstance(v, (int, float)) and not isinstance(v, bool)


DRAFT4 = [False]     # set per case by schema_ok(..., draft4=True): draft-04 'integer' does not admit 1.0


def _type_ok(t: str, v: Any) -> bool:
    if t == 'integer':
        return _is_num(v) and (isinstance(v, int) or (v.is_integer() and not DRAFT4[0]))
    if t == 'number':
        return _is_num(v)
    if t == 'string':
        return isinstance(v, str)
    if t == 'boolean':
        return isinstance(v, bool)
    if t == 'array':
        return isinstance(v, (list, tuple))
    if t == 'object':
        return isinstance(v, dict)
    if t == 'null':
        return v is None
    raise AssertionError(t)


def _json_equal(a: Any, b: Any) -> bool:
    if isinstance(a, bool) or isinstance(b, bool):
        return isinstance(a, bool) and isinstance(b, bool) and a == b
    if _is_num(a) and _is_num(b):
        return a == b
    if type(a) is not type(b):
        return False
    return a == b


def _ipv4(v: str) -> bool:
    parts = v.split('.')
    return len(parts) == 4 and all(p.isdigit() and 0 <= int(p) <= 255 for p in parts)


def schema_ok(s: Dict[str, Any], v: Any, formats: bool = False, draft4: bool = False) -> bool:
    """draft4: the schema declares "$schema": draft-04 - of the generated vocabulary only 'integer' differs (1.0 is not an integer there)"""
    DRAFT4[0] = draft4
    try:
        return _schema_ok(s, v, formats)
    finally:
        DRAFT4[0] = False


def _schema_ok(s: Dict[str, Any], v: Any, formats: bool = False) -> bool:
    if formats and s.get('format') == 'ipv4' and isinstance(v, str) and not _ipv4(v):
        return False
    if 'type' in s:
        ts = s['type'] if isinstance(s['type'], list) else [s['type']]
        if not any(_type_ok(t, v) for t in ts):
            return False
    if 'enum' in s and not any(_json_equal(v, e) for e in s['enum']):
        return False
    if _is_num(v):
        if 'minimum' in s and v < s['minimum']:
            return False
        if 'maximum' in s and v > s['maximum']:
            return False
    if isinstance(v, str) and 'minLength' in s and len(v) < s['minLength']:
        return False
    if isinstance(v, (list, tuple)) and 'items' in s and not all(_schema_ok(s['items'], x, formats) for x in v):
        return False
    if isinstance(v, dict):
        for k in s.get('required', []):
            if k not in v:
                return False
        props = s.get('properties', {})
        for k, x in v.items():
            if k in props:
                if not _schema_ok(props[k], x, formats):
                    return False
            elif s.get('additionalProperties', True) is False:
                return False
    return True


def describe(v: Any) -> Any:
    """JSON description of a value as the method body saw it"""
    if isinstance(v, pydantic.BaseModel):
        return {'$model': type(v).__name__, 'data': v.model_dump()}
    if isinstance(v, enum.Enum):
        return {'$enum': v.value}
    if isinstance(v, (list, tuple)):
        return [describe(x) for x in v]
    if isinstance(v, dict):
        return {k: describe(x) for k, x in v.items()}
    return v


LOG: List[Dict[str, Any]] = []
SENTINEL: List[Any] = [None]


def _body(args: Dict[str, Any], ctx: Any) -> Any:
    LOG.append({'args': {k: describe(v) for k, v in args.items()}, 'ctx': ctx is SENTINEL[0]})
    return {'ran': True}


def _inject(inner: Any) -> Any:
    """a dependency-injecting decorator: the wrapper keeps the inner signature (functools.wraps) and supplies dep_x itself"""
    import functools

    @functools.wraps(inner)
    def wrapper(*args: Any, **kwargs: Any) -> Any:
        return inner(*args, dep_x='injected-default', **kwargs)
    return wrapper


class C14(Check):
    pid = 'C14'
    level = 'exploration'
    quick_examples = 2500
    thorough_examples = 20000
    rule = (
        "[round 16: pydantic model configuration extra = default / ignore / allow] [drawn in addition since rounds 13-15: excluded parameter among the positional parameters; context registered positional=True; `x: T = None` defaults and explicit nulls drawn on purpose] "
        "cases: signatures of 1..3 parameters (positional-or-keyword / keyword-only, with / without defaults) plus optional context parameter "
        "and optional parameters excluded by an exclusion predicate (name prefix 'dep_'; with a default, or without one and injected by a functools.wraps decorator), as plain function, coroutine or class based view "
        "method; JSON-schema half: per-parameter fragments from 15 schemas (type incl. unions, enum, minimum / maximum, minLength, items.type, a string format that is enforced only when the method's own validator arguments carry a format checker) + "
        "top-level required / additionalProperties, optionally under a validator constructed with a permissive validator-wide default schema (the method's own schema wins); pydantic half: annotations int, Annotated[int, Field(ge=0, le=10)], str, float, bool, Optional[int], List[int], Dict[str,int], "
        "an Enum, a model class, a model class whose validator raises ValueError, unannotated; coerce on / off; argument values from per-type "
        "alphabets of conforming, coercible ('1', 1.0, 'yes') and non-conforming values, passed positionally or by name, incl. unknown names, "
        "the context name and excluded names; optionally a second function with the same python name and other annotations, sharing the validator instance, is served first. Oracle: executed iff (a twin function binds) and (reference says the explicitly bound arguments "
        "conform): a 60-line evaluator of exactly the generated schema vocabulary / pydantic.TypeAdapter(annotation) per parameter; refused "
        "=> -32602, JSON text, empty execution log; accepted => the body saw the raw values (jsonschema, coerce off) or the TypeAdapter's "
        "converted values (coerce on), defaults filled; excluded parameters keep their defaults; the same request sent a second time is answered identically. non-trivial = at least one parameter carries "
        "a constraint and the arguments bind (so the constraint is exercised); distinct = distinct spec."
    )
    assumptions = [
        "pydantic's TypeAdapter judges type conformance / conversion (trusted); pjrpc's model building, binding, error path and argument passing are under test",
        "JSON-schema semantics: draft-07 (integer admits 1.0; booleans are not numbers; enum by JSON equality) unless the schema declares draft-04 in '$schema' (there 1.0 is not an integer)",
        "parameters excluded by predicate either have a default or are supplied by a functools.wraps decorator (both styles appear in the repository's examples)",
    ]
    trusted_base = ['pydantic.TypeAdapter', 'reference JSON-schema evaluator in checks/c14.py', 'python call binding']
    required_classes = ['validator/jsonschema', 'validator/pydantic', 'coerce/on', 'coerce/off', 'outcome/executed', 'outcome/refused-by-binding',
                        'outcome/refused-by-validation', 'flavour/func', 'flavour/view', 'ctx/yes', 'excluded/yes', 'excluded/injected-without-default', 'excluded/among-the-positional-parameters', 'ctx/positional', 'attack/excluded-name-supplied',
                        'converted', 'type/vmodel-rejects', 'passing/positional', 'passing/named', 'dispatcher/async', 'sibling-same-name-served-first', 'format/checked', 'format/not-checked',
                        'jsonschema/validator-wide-default-schema', 'jsonschema/declares-draft-04', 'type/annotated-constraint']

    def strategy(self, tier: str):
        s_kind = st.sampled_from(['PK', 'PK', 'KO'])
        s_bool = st.booleans()
        s_tname = st.sampled_from(sorted(TYPES))
        s_schema = st.sampled_from(list(range(len(SCHEMAS))) + [len(SCHEMAS) - 1] * 4)      # extra weight on the format fragment
        s_sval = st.sampled_from(SCHEMA_VALUES)
        s_idx = st.integers(0, 20)
        s_bits = st.integers(0, 255)

        @st.composite
        def case(draw):
            validator = draw(st.sampled_from(['jsonschema', 'pydantic']))
            n = draw(st.integers(1, 3))
            params = []
            seen_default = False
            for i in range(n):
                kind = draw(s_kind)
                p: Dict[str, Any] = {'name': f'p{i}', 'kind': kind}
                if validator == 'pydantic':
                    p['type'] = draw(s_tname)
                    vals = TYPE_VALUES[p['type']]
                else:
                    p['schema'] = draw(s_schema)
                    vals = SCHEMA_VALUES
                has_default = draw(s_bool) and draw(s_bool)
                if kind == 'PK':
                    seen_default = seen_default or has_default
                    has_default = seen_default
                if has_default:
                    # `x: int = None` is the usual way to write 'may be omitted'; it does not make an explicit null conform
                    p['default'] = {'value': None if draw(s_idx) % 3 == 0 else vals[draw(s_idx) % len(vals)]}
                params.append(p)
            params.sort(key=lambda q: 0 if q['kind'] == 'PK' else 1)
            excluded = draw(st.integers(0, 3)) == 0
            ctx = draw(st.integers(0, 2)) == 0
            flavour = draw(st.sampled_from(['func', 'func', 'view']))
            names = [q['name'] for q in params]
            pool = names + ['zz'] + (['dep_x'] if excluded else []) + (['ctx'] if ctx else [])
            shape = draw(st.sampled_from(['named', 'named-exact', 'named-exact', 'named-exact', 'positional', 'positional', 'absent']))

            def value_for(q):
                if validator == 'pydantic':
                    vals = TYPE_VALUES[q['type']]
                    if draw(s_idx) % 6 == 0:
                        return None      # an explicit null
                    if draw(s_bool):
                        return vals[draw(s_idx) % 3]      # the first entries of each alphabet conform or are coercible
                else:
                    vals = SCHEMA_VALUES
                    if draw(s_bool):
                        ok = [v for v in vals if schema_ok(SCHEMAS[q['schema']], v)]
                        if ok:
                            return ok[draw(s_idx) % len(ok)]
                return vals[draw(s_idx) % len(vals)]
            if shape == 'absent':
                args: Dict[str, Any] = {'absent': True}
            elif shape == 'positional':
                npos = len([q for q in params if q['kind'] == 'PK'])
                k = npos if draw(s_bool) else draw(st.integers(0, npos + 1))
                args = {'value': [value_for(params[min(i, len(params) - 1)]) for i in range(k)]}
            elif shape == 'named-exact':
                args = {'value': {q['name']: value_for(q) for q in params}}
            else:
                bits = draw(s_bits)
                chosen = [nm for i, nm in enumerate(pool) if bits >> i & 1]
                byname = {q['name']: q for q in params}
                args = {'value': {nm: (value_for(byname[nm]) if nm in byname else draw(s_sval)) for nm in chosen}}
            top: Dict[str, Any] = {}
            if validator == 'jsonschema':
                if draw(s_bool):
                    top['required'] = [nm for i, nm in enumerate(names) if draw(s_bits) >> i & 1]
                if draw(st.integers(0, 3)) == 0:
                    top['additionalProperties'] = False
                if draw(st.integers(0, 4)) == 0:
                    top['$schema'] = 'http://json-schema.org/draft-04/schema#'     # the schema declares its own dialect
                    if top.get('required') == []:
                        del top['required']      # an empty `required` array is not a valid draft-04 schema
            case_ = {'dispatcher': draw(st.sampled_from(['sync', 'sync', 'async'])), 'validator': validator, 'flavour': flavour, 'ctx': ctx,
                     'excluded': excluded, 'coerce': draw(s_bool), 'params': params, 'top': top, 'args': args}
            if validator == 'pydantic':
                # model configuration handed to the validator (documented **config_args): what the generated MODEL does with unknown
                # fields does not change which calls bind to the method's signature
                case_['model_extra'] = [None, None, 'ignore', 'allow'][draw(s_idx) % 4]
            if excluded:
                case_['excluded_style'] = draw(st.sampled_from(['default', 'injected']))
                # where the excluded parameter sits: keyword-only at the end, or an ordinary parameter (with its default) between the
                # required and the optional client parameters (`def create(request, name, storage=Depends(), limit=5)`)
                case_['excluded_pos'] = draw(st.sampled_from(['kwonly-last', 'middle']))
            if ctx and flavour != 'view':
                case_['ctx_positional'] = draw(s_bool)      # the context is the first positional argument (registered with positional=True)
            if validator == 'jsonschema':
                # per-method validator arguments besides the schema: a format checker for this method and / or for the sibling
                case_['format_checker'] = draw(st.integers(0, 3)) == 0
                case_['sibling_format_checker'] = draw(s_bool)
                case_['validator_default_schema'] = draw(st.integers(0, 2)) == 0
            if flavour == 'func' and draw(st.integers(0, 2)) == 0:
                # a second function with the SAME python name (another module's 'meth') sharing the validator instance, served first
                sib = [{'name': q['name'], 'kind': q['kind'], **({'type': draw(s_tname)} if validator == 'pydantic' else {'schema': draw(s_schema)})}
                       for q in params[:draw(st.integers(1, 3))]]
                case_['sibling'] = sib
            return case_
        return case()

    def corpus(self):
        # the dependency-injection shape of the repository's examples: context first (by name or positionally), a required client parameter,
        # an excluded parameter with its default, an optional client parameter - called with a positional list and by name
        di = []
        for validator, ptype in (('pydantic', {'type': 'int'}), ('jsonschema', {'schema': 0})):
            for dispatcher in ('sync', 'async'):
                for ctx_positional in (False, True):
                    for args in ([7, 3], [7], {'p0': 7, 'p1': 3}, {'p0': 7}):
                        di.append({'dispatcher': dispatcher, 'validator': validator, 'flavour': 'func', 'ctx': True, 'ctx_positional': ctx_positional, 'excluded': True,
                                   'excluded_style': 'default', 'excluded_pos': 'middle', 'coerce': dispatcher == 'sync', 'top': {},
                                   'params': [{'name': 'p0', 'kind': 'PK', **ptype}, {'name': 'p1', 'kind': 'PK', **ptype, 'default': {'value': 5}}],
                                   'args': {'value': args}})
        return di + [
            {'dispatcher': 'sync', 'validator': 'pydantic', 'flavour': 'func', 'ctx': False, 'excluded': False, 'coerce': True, 'top': {},
             'params': [{'name': 'p0', 'kind': 'PK', 'type': 'vmodel'}], 'args': {'value': {'p0': {'n': -1}}}},
            {'dispatcher': 'sync', 'validator': 'pydantic', 'flavour': 'func', 'ctx': False, 'excluded': False, 'coerce': True, 'top': {},
             'params': [{'name': 'p0', 'kind': 'PK', 'type': 'list_int', 'default': {'value': []}}], 'args': {'value': [['1', 2]]}},
            {'dispatcher': 'async', 'validator': 'pydantic', 'flavour': 'view', 'ctx': True, 'excluded': True, 'coerce': False, 'top': {},
             'params': [{'name': 'p0', 'kind': 'PK', 'type': 'int'}, {'name': 'p1', 'kind': 'KO', 'type': 'model', 'default': {'value': None}}],
             'args': {'value': {'p0': '1', 'dep_x': 5}}},
            {'dispatcher': 'sync', 'validator': 'pydantic', 'flavour': 'func', 'ctx': False, 'excluded': False, 'coerce': False, 'top': {},
             'params': [{'name': 'p0', 'kind': 'PK', 'type': 'bounded'}], 'args': {'value': [11]}},
            {'dispatcher': 'async', 'validator': 'pydantic', 'flavour': 'view', 'ctx': False, 'excluded': False, 'coerce': True, 'top': {},
             'params': [{'name': 'p0', 'kind': 'KO', 'type': 'bounded', 'default': {'value': 3}}], 'args': {'value': {'p0': -1}}},
            {'dispatcher': 'sync', 'validator': 'jsonschema', 'flavour': 'func', 'ctx': False, 'excluded': False, 'coerce': False, 'validator_default_schema': True,
             'top': {'required': ['p0']}, 'params': [{'name': 'p0', 'kind': 'PK', 'schema': 0}], 'args': {'value': {'p0': 'not-an-integer'}}},
            {'dispatcher': 'sync', 'validator': 'jsonschema', 'flavour': 'func', 'ctx': False, 'excluded': False, 'coerce': False,
             'top': {'$schema': 'http://json-schema.org/draft-04/schema#'}, 'params': [{'name': 'p0', 'kind': 'PK', 'schema': 0}], 'args': {'value': [1.0]}},
            {'dispatcher': 'async', 'validator': 'jsonschema', 'flavour': 'view', 'ctx': False, 'excluded': False, 'coerce': False,
             'top': {'$schema': 'http://json-schema.org/draft-04/schema#'}, 'params': [{'name': 'p0', 'kind': 'PK', 'schema': 11}], 'args': {'value': {'p0': [1, 2.0]}}},
            {'dispatcher': 'sync', 'validator': 'jsonschema', 'flavour': 'func', 'ctx': True, 'excluded': False, 'coerce': False,
             'top': {'required': ['p0'], 'additionalProperties': False}, 'params': [{'name': 'p0', 'kind': 'PK', 'schema': 0}, {'name': 'p1', 'kind': 'PK', 'schema': 10, 'default': {'value': 'ab'}}],
             'args': {'value': [1.0, 'a']}},
        ]

    # ---- building the method ---------------------------------------------------------------------------------

    def _build(self, spec: Any):
        is_async = spec['dispatcher'] == 'async'
        params = spec['params']
        exclude_fn = (lambda name, ann, default: name.startswith('dep_')) if spec['excluded'] else None
        if spec['validator'] == 'pydantic':
            config_args = {'extra': spec['model_extra']} if spec.get('model_extra') else {}
            validator: Any = vpd.PydanticValidator(coerce=spec['coerce'], exclude_param=exclude_fn, **config_args)
            vargs: Dict[str, Any] = {}
        else:
            # validator-wide default arguments (here a permissive fallback schema): a method's own validate(...) arguments win over them
            vdefaults = {'schema': {'type': 'object'}} if spec.get('validator_default_schema') else {}
            validator = vjs.JsonSchemaValidator(exclude_param=exclude_fn, **vdefaults)
            schema = {'type': 'object', 'properties': {p['name']: SCHEMAS[p['schema']] for p in params}, **spec['top']}
            vargs = {'schema': schema}
            if spec.get('format_checker'):
                import jsonschema
                vargs['format_checker'] = jsonschema.FormatChecker()
        ns: Dict[str, Any] = {'_body': _body, 'NOCTX': hm.NOCTX}
        parts: List[str] = []
        star = False
        view = spec['flavour'] == 'view'
        if view:
            parts.append('self')
        elif spec['ctx']:
            parts.append('ctx')
        for i, p in enumerate(params):
            if p['kind'] == 'KO' and not star:
                parts.append('*')
                star = True
            src = p['name']
            if spec['validator'] == 'pydantic' and TYPES[p['type']] is not None:
                ns[f'T{i}'] = TYPES[p['type']]
                src += f': T{i}'
            if 'default' in p:
                ns[f'D{i}'] = p['default']['value']
                src += f' = D{i}'
            parts.append(src)
        injected = spec['excluded'] and spec.get('excluded_style') == 'injected'
        if spec['excluded'] and spec.get('excluded_pos') == 'middle' and not injected:
            lead = 1 if (view or spec['ctx']) else 0
            at = next((i for i in range(lead, len(parts)) if parts[i] == '*' or ' = ' in parts[i]), len(parts))
            parts.insert(at, "dep_x='injected-default'")
        elif spec['excluded']:
            if not star:
                parts.append('*')
            # 'injected': no default at all - a functools.wraps decorator supplies the value (the dishka example in the repository)
            parts.append("dep_x" if injected else "dep_x='injected-default'")
        names = [p['name'] for p in params] + (['dep_x'] if spec['excluded'] else [])
        bound = '{' + ', '.join(f'{n!r}: {n}' for n in names) + '}'
        ctx_expr = 'self._ctx' if view else ('ctx' if spec['ctx'] else 'NOCTX')
        a = 'async ' if is_async else ''
        if view:
            src = (f"class View(ViewMixin):\n    def __init__(self, view_context=NOCTX):\n        super().__init__()\n        self._ctx = view_context\n"
                   f"    {a}def meth({', '.join(parts)}):\n        return _body({bound}, {ctx_expr})\n")
            ns['ViewMixin'] = pjrpc.server.ViewMixin
            exec(src, ns)
            cls = ns['View']
            if injected:
                cls.meth = _inject(cls.meth)
            cls.meth = validator.validate(cls.meth, **vargs) if vargs else validator.validate(cls.meth)
            reg = pjrpc.server.MethodRegistry()
            reg.view(cls, context='context' if spec['ctx'] else None)
        else:
            src = f"{a}def meth({', '.join(parts)}):\n    return _body({bound}, {ctx_expr})\n"
            exec(src, ns)
            if injected:
                ns['meth'] = _inject(ns['meth'])
            fn = validator.validate(ns['meth'], **vargs) if vargs else validator.validate(ns['meth'])
            reg = pjrpc.server.MethodRegistry()
            reg.add(fn, 'meth', context='ctx' if spec['ctx'] else None, positional=bool(spec['ctx'] and spec.get('ctx_positional')))
            if spec.get('sibling'):
                ns2: Dict[str, Any] = {'_body': _body, 'NOCTX': hm.NOCTX}
                sparts = []
                for i, p in enumerate(spec['sibling']):
                    src2 = p['name']
                    if spec['validator'] == 'pydantic' and TYPES[p['type']] is not None:
                        ns2[f'T{i}'] = TYPES[p['type']]
                        src2 += f': T{i}'
                    sparts.append(src2 + ' = None')
                exec(f"{a}def meth({', '.join(sparts)}):\n    return 'sibling'\n", ns2)
                if spec['validator'] == 'pydantic':
                    sfn = validator.validate(ns2['meth'])
                else:
                    import jsonschema
                    extra = {'format_checker': jsonschema.FormatChecker()} if spec.get('sibling_format_checker') else {}
                    sfn = validator.validate(ns2['meth'], schema={'type': 'object', 'properties': {p['name']: SCHEMAS[p['schema']] for p in spec['sibling']}}, **extra)
                reg.add(sfn, 'sibling')
        d = pjrpc.server.AsyncDispatcher() if is_async else pjrpc.server.Dispatcher()
        d.add_methods(reg)
        return d

    # ---- oracle ------------------------------------------------------------------------------------------------------

    def _expect(self, spec: Any) -> Tuple[str, Optional[Dict[str, Any]]]:
        """-> ('binding' | 'validation' | 'executed', expected described args)"""
        params = spec['params']
        twin_spec = {'params': [{'name': p['name'], 'kind': p['kind'], **({'default': {'value': None}} if 'default' in p else {})} for p in params]}
        a = spec['args']
        supplied = [] if 'absent' in a else a['value']
        bound = ref.bind(twin_spec, supplied)
        if bound is None:
            return 'binding', None
        explicit = set(supplied.keys()) if isinstance(supplied, dict) else {p['name'] for p, _ in zip([q for q in params if q['kind'] == 'PK'], supplied)}
        raw = {}
        for p in params:
            raw[p['name']] = bound[p['name']] if p['name'] in explicit else (p['default']['value'] if 'default' in p else None)
        if spec['validator'] == 'jsonschema':
            schema = {'type': 'object', 'properties': {p['name']: SCHEMAS[p['schema']] for p in params}, **spec['top']}
            explicit_args = {k: v for k, v in raw.items() if k in explicit}
            if not schema_ok(schema, explicit_args, formats=bool(spec.get('format_checker')), draft4='$schema' in spec['top']):
                return 'validation', None
            expected = {k: describe(v) for k, v in raw.items()}
        else:
            converted = {}
            for p in params:
                if p['name'] not in explicit:
                    continue
                ann = TYPES[p['type']]
                if ann is None:
                    converted[p['name']] = raw[p['name']]
                    continue
                try:
                    converted[p['name']] = pydantic.TypeAdapter(ann).validate_python(raw[p['name']])
                except pydantic.ValidationError:
                    return 'validation', None
            if spec['coerce']:
                expected = {p['name']: describe(converted[p['name']] if p['name'] in explicit else raw[p['name']]) for p in params}
            else:
                expected = {k: describe(v) for k, v in raw.items()}
        if spec['excluded']:
            expected['dep_x'] = 'injected-default'
        return 'executed', expected

    def run_case(self, spec: Any) -> Outcome:
        d = self._build(spec)
        del LOG[:]
        sentinel = object()
        SENTINEL[0] = sentinel
        req: Dict[str, Any] = {'jsonrpc': '2.0', 'id': 1, 'method': 'meth'}
        if 'absent' not in spec['args']:
            req['params'] = spec['args']['value']
        text = json.dumps(req)
        sig = [(p['name'], p['kind'], p.get('type', p.get('schema')), 'default' in p) for p in spec['params']]
        where = (f"validator={spec['validator']} coerce={spec['coerce']} flavour={spec['flavour']} ctx={spec['ctx']} excluded={spec['excluded']}/{spec.get('excluded_pos')} ctx_positional={spec.get('ctx_positional')} "
                 f"sig={sig} top={spec['top']} sibling={spec.get('sibling')} request={text[:300]}")
        verdict, expected = self._expect(spec)
        discs: List[Disc] = []
        try:
            if spec.get('sibling'):
                hm.run_dispatch(spec['dispatcher'], d, json.dumps({'jsonrpc': '2.0', 'id': 0, 'method': 'sibling', 'params': {}}), sentinel)
                del LOG[:]
            r = hm.run_dispatch(spec['dispatcher'], d, text, sentinel)
        except Exception as e:
            return Outcome([Disc(f"C14/dispatch-raised/{type(e).__name__}", f"{e!r} | {where}")], True, ['crash'])
        try:
            doc = json.loads(r[0])
        except Exception as e:
            return Outcome([Disc("C14/malformed-return", f"{r!r}: {e} | {where}")], True, ['crash'])
        log = list(LOG)
        if verdict == 'executed':
            if 'result' not in doc:
                discs.append(Disc(f"C14/conforming-call-refused/{spec['validator']}", f"{jg.short(doc)} | {where}"))
            elif len(log) != 1:
                discs.append(Disc("C14/execution-count", f"{len(log)} executions | {where}"))
            else:
                if not jg.jeq(log[0]['args'], expected):
                    clause = 'converted-arguments' if spec['validator'] == 'pydantic' and spec['coerce'] else 'arguments-changed'
                    discs.append(Disc(f"C14/{clause}", f"body saw {jg.short(log[0]['args'])} expected {jg.short(expected)} | {where}"))
                if spec['ctx'] and not log[0]['ctx']:
                    discs.append(Disc("C14/context", f"the method did not get the server context | {where}"))
        else:
            code = doc.get('error', {}).get('code')
            if 'result' in doc or log:
                discs.append(Disc(f"C14/non-conforming-call-executed/{verdict}/{spec['validator']}", f"{jg.short(doc)} log {jg.short(log)} | {where}"))
            elif code != -32602:
                discs.append(Disc(f"C14/refused-with-wrong-code/{code}", f"{jg.short(doc)} | {where}"))
        # the same request once more through the same dispatcher / validator: validation keeps no state a request could change
        if not discs:
            del LOG[:]
            try:
                r2 = hm.run_dispatch(spec['dispatcher'], d, text, sentinel)
                same = json.loads(r2[0]) == doc and jg.jeq([e['args'] for e in LOG], [e['args'] for e in log])
            except Exception as e:
                r2, same = repr(e), False
            if not same:
                discs.append(Disc("C14/second-identical-request-answered-differently", f"first {jg.short(doc)} log {jg.short(log)}; second {r2!r} log {jg.short(list(LOG))} | {where}"))
        classes = [f"validator/{spec['validator']}", f"flavour/{spec['flavour']}", 'ctx/yes' if spec['ctx'] else 'ctx/no',
                   'excluded/yes' if spec['excluded'] else 'excluded/no', f"dispatcher/{spec['dispatcher']}",
                   *(['excluded/injected-without-default'] if spec['excluded'] and spec.get('excluded_style') == 'injected' else []),
                   *(['excluded/among-the-positional-parameters'] if spec['excluded'] and spec.get('excluded_pos') == 'middle' and spec.get('excluded_style') != 'injected' else []),
                   *(['ctx/positional'] if spec['ctx'] and spec.get('ctx_positional') and spec['flavour'] != 'view' else []),
                   {'executed': 'outcome/executed', 'binding': 'outcome/refused-by-binding', 'validation': 'outcome/refused-by-validation'}[verdict]]
        if spec['validator'] == 'pydantic':
            classes.append('coerce/on' if spec['coerce'] else 'coerce/off')
            if spec.get('model_extra'):
                classes.append(f"pydantic/model-config-extra-{spec['model_extra']}")
        if spec.get('validator_default_schema'):
            classes.append('jsonschema/validator-wide-default-schema')
        if '$schema' in spec.get('top', {}):
            classes.append('jsonschema/declares-draft-04')
        if any(p.get('type') == 'bounded' for p in spec['params']):
            classes.append('type/annotated-constraint')
        pv = spec['args'].get('value')
        if isinstance(pv, dict):
            classes.append('passing/named')
            if 'dep_x' in pv or 'ctx' in pv:
                classes.append('attack/excluded-name-supplied')
        elif isinstance(pv, list) and pv:
            classes.append('passing/positional')
        if verdict == 'executed' and spec['validator'] == 'pydantic' and spec['coerce'] and isinstance(pv, (dict, list)):
            rawvals = pv if isinstance(pv, dict) else dict(zip([p['name'] for p in spec['params']], pv))
            if any(not jg.jeq(describe(rawvals.get(k)), v) for k, v in expected.items() if k in rawvals):
                classes.append('converted')
        if spec.get('sibling'):
            classes.append('sibling-same-name-served-first')
        if spec['validator'] == 'jsonschema' and any(SCHEMAS[p['schema']].get('format') for p in spec['params']):
            classes.append('format/checked' if spec.get('format_checker') else 'format/not-checked')
        if verdict == 'validation' and any(p.get('type') == 'vmodel' for p in spec['params']):
            classes.append('type/vmodel-rejects')
        constrained = any((p.get('type') not in (None, 'any')) if spec['validator'] == 'pydantic' else bool(SCHEMAS[p['schema']]) for p in spec['params']) or bool(spec['top'])
        return Outcome(discs, constrained and verdict != 'binding', sorted(set(classes)))


CHECK = C14()

MANIFEST = dict(
    technique="property-based testing (Hypothesis) of generated signatures x schemas / annotations x argument alphabets against a reference JSON-schema evaluator and pydantic.TypeAdapter, with twin-function binding",
    level_text=(
        "Generated methods carrying a JsonSchemaValidator or PydanticValidator (coerce on/off, context parameter, exclusion predicate, function / "
        "coroutine / view flavours) are called with conforming, coercible and non-conforming values; 'executed iff binds and conforms' is "
        "decided by a twin call plus an independent evaluator of the generated schema vocabulary or pydantic's TypeAdapter per parameter; the "
        "arguments the body saw are compared with the raw / converted expectation. Sampling over signatures of <= 3 parameters."
    ),
    level_note="trusts pydantic.TypeAdapter for type conformance and the 60-line schema evaluator; variadic parameters are excluded here (KF-C04-1)",
)
