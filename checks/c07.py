"""
C07 - calling through client and server equals calling the function, in any notation: exactly one well-formed request
document per send (ids present and distinct for calls, absent for notifications, arguments positional or named as
given); the caller obtains the function's value (JSON-normalised) or an exception of the class registered for the
code; notifications return nothing and run every method once; all notations are interchangeable.
"""

import functools
import json
import random
from typing import Any, Dict, List, Optional, Tuple

from hypothesis import strategies as st

import pjrpc
from pjrpc.common import generators
from pjrpc.common.exceptions import JsonRpcError

from pbt import clientharness as ch, errors as he, jsongen as jg, methods as hm, refserver as ref, serverharness as sh, stdreg
from pbt import wellformed as wf
from pbt.runner import Check, Disc, Outcome

SINGLE_NOTATIONS = ['call', '__call__', 'proxy', 'send']
# 'batch-reuse': ONE batch object - the first `split` calls are added and sent, then the rest is added to the same object and it is sent again
# 'batch-mixed': ONE batch object filled through two notations - the head by batch(...)(...) / notify, the tail by the subscript, which also sends it
# 'batch-mixed-proxy': ONE batch object - the head by add / notify, the trailing run of calls through its .proxy, whose call() sends everything
BATCH_NOTATIONS = ['batch-add', 'batch-call', 'batch-getitem', 'batch-proxy', 'batch-send', 'batch-reuse', 'batch-mixed', 'batch-mixed-proxy']
METHODS = {
    # name -> list of (args, kwargs) shapes that bind, plus some that do not
    'echo': [([1], {}), ([1, 'x'], {}), ([], {'a': 1}), ([], {'a': None, 'b': [1]}), ([], {}), ([1, 2, 3], {}), ([], {'zz': 1})],
    'kwonly': [([], {'k': 1}), ([], {'k': 'v', 'j': {'x': 1}}), ([1], {})],
    'noargs': [([], {})],
    'ret': [([], {}), ([5], {})],
    'rpc_err': [([], {}), ([1], {})],
    'rpc_err2': [([], {})],
    'boom': [([], {}), ([], {'x': 1})],
    'with_ctx': [([1], {}), ([], {'a': 2})],
    'v.get': [([1], {}), ([], {'a': 1, 'b': 2})],
    'a.b.c': [([0], {})],
    'nope': [([], {}), ([1], {})],
    '_us': [([], {}), ([1], {}), ([], {'a': [1]})],
    'wrapped': [([1], {}), ([], {'a': 2}), ([], {})],
    'rpc.ext': [([1], {}), ([], {'a': 2}), ([], {})],
    'js.tag': [(['x'], {}), ([], {'t': 'y', 'n': 2}), ([5], {}), ([], {'t': None})],
    # remote method names that coincide with public names of the client-side objects (a proxy resolves ANY public name remotely; the batch
    # proxy's own `call` is the one documented exception and is not used here): unregistered on the server, so each is answered -32601
    'client': [([41], {}), ([], {'x': 41})],
    'batch': [([], {}), ([1], {})],
    'send': [([1], {})],
    'notify': [([], {'a': 1})],
    'proxy': [([], {})],
    'strict': [([1], {})],
    'method': [([], {}), ([2], {})],
}


def id_gen(spec: Dict[str, Any]):
    k = spec['kind']
    if k == 'sequential':
        return functools.partial(generators.sequential, spec['start'], spec['step'])
    if k == 'randint':
        return functools.partial(generators.randint, 0, 2**62)
    if k == 'randint-narrow':
        # a built-in generator configured so narrowly that it repeats itself: every id is 5
        return functools.partial(generators.randint, 5, 5)
    if k == 'random':
        return functools.partial(generators.random, spec['length'], spec['chars'])
    return generators.uuid


def uuid_ids(spec: Any, disc: Any) -> bool:
    return spec['id_gen']['kind'] == 'uuid' and any(p['kind'] == 'call' for p in spec['plan'])


class C07(Check):
    pid = 'C07'
    level = 'exploration'
    quick_examples = 2000
    thorough_examples = 15000
    chunk = 1000
    matchers = {'uuid_ids': uuid_ids}
    rule = (
        "[round 16: remote method names equal to public names of the client objects (client, batch, send, notify, proxy, strict, method)] [drawn in addition since rounds 13-15: client error_cls {default, plain subclass, get_error_cls override, own-registry hierarchy}; one batch object filled by add / notify and finished through its proxy] "
        "cases: call plans of 1..4 logical calls (method of the 15-method registry or an unknown one, positional list or named mapping "
        "incl. non-binding shapes, call or notification, pooled JSON values as arguments) executed through a notation {call, __call__, "
        "proxy attribute, hand-built Request + send, notify; batch add/notify, batch(...)(...), batch[...], batch.proxy, hand-built "
        "BatchRequest + batch.send; one batch object sent, grown and sent again; one batch object filled through two notations (call + subscript; add / notify + proxy)} (each only where it can express the plan) and, for the interchangeability clause, through a second "
        "notation with identically seeded id generators; x sync/async client x sync/async dispatcher x id generator {sequential(start, "
        "step), randint, randint over a one-value range (it repeats itself), random(length, chars), uuid} x strict on/off x dispatcher max_batch_size {unset, 1, 2, 3} x scripted method behaviours (return any JSON value, raise registered "
        "typed / unregistered protocol errors, raise exceptions). Oracle: one transport call per send; the wire text is a valid request "
        "document equal to the expected one up to id values (ids present, distinct and of the generator's type for calls; absent for "
        "notifications; positional -> array, named -> object, none -> no params member); outcomes equal the reference server's (which calls "
        "a twin of the registered function): value under type-aware JSON equality or exception of the class registered for the code with "
        "equal code/message/data; notifications and all-notification batches return None; the server-side log shows each method run exactly "
        "once. non-trivial = plan has >= 2 calls, or a failing call, or a notification, or non-scalar arguments; distinct = distinct spec."
    )
    assumptions = [
        "positional and keyword arguments are never mixed in one client call; keyword names never collide with 'method' / '_trace_ctx'",
        "library-generated errors (-32601, -32602, -32000) are compared by class and code only",
        "KF-C07-1: generators.uuid yields UUID objects the JSON encoder rejects - muted for plans that need an id with that generator",
    ]
    trusted_base = ['pbt/refserver.py', 'pbt/wellformed.py', 'python call binding']
    required_classes = ['notation/' + n for n in SINGLE_NOTATIONS + BATCH_NOTATIONS] + [
        'pair/sync-sync', 'pair/sync-async', 'pair/async-sync', 'pair/async-async', 'idgen/sequential', 'idgen/randint', 'idgen/random',
        'idgen/uuid', 'strict/on', 'strict/off', 'outcome/typed-error', 'outcome/unregistered-error', 'outcome/server-error',
        'plan/all-notifications', 'plan/mixed', 'interchange/checked', 'error_cls/PlainBase', 'error_cls/IndepBase', 'error_cls/MetaBase']

    def strategy(self, tier: str):
        s_val = jg.cheap_value()
        names = sorted(METHODS)

        @st.composite
        def step(draw):
            m = draw(st.sampled_from(names + ['echo', 'echo', 'ret', 'rpc_err', 'rpc_err2']))
            args, kwargs = draw(st.sampled_from(METHODS[m]))
            if draw(st.integers(0, 2)) == 0:
                args = [draw(s_val) for _ in args]
                kwargs = {k: draw(s_val) for k in kwargs}
            return {'method': m, 'args': list(args), 'kwargs': dict(kwargs), 'kind': draw(st.sampled_from(['call', 'call', 'call', 'notification']))}

        s_idgen = st.one_of(
            st.builds(lambda a, b: {'kind': 'sequential', 'start': a, 'step': b}, st.sampled_from([1, 0, -5, 10**20]), st.sampled_from([1, 2, -1, 7])),
            st.just({'kind': 'randint'}), st.just({'kind': 'randint-narrow'}),
            st.builds(lambda n, c: {'kind': 'random', 'length': n, 'chars': c}, st.sampled_from([8, 16, 32]), st.sampled_from(['0123456789abcdef', 'abcdefghijklmnopqrstuvwxyz'])),
            st.just({'kind': 'uuid'}),
        )
        s_idgen = jg.weighted(s_idgen, s_idgen, st.builds(lambda a: {'kind': 'sequential', 'start': a, 'step': 1}, st.sampled_from([1, 0])))
        return st.builds(
            lambda c, d, s, g, n1, n2, plan, beh, seed, split: {'client': c, 'dispatcher': d, 'strict': s, 'id_gen': g, 'notation': n1, 'other': n2,
                                                                  'plan': plan, 'behaviours': beh, 'seed': seed, 'split': split, 'batch_strict': seed % 3 != 0,
                                                                  'error_cls': ([None] * 4 + ['PlainBase', 'IndepBase', 'MetaBase'])[seed % 7],
                                                                  'max_batch_size': [None, None, None, 1, 2, 3][seed % 6]},
            st.sampled_from(['sync', 'async']), st.sampled_from(['sync', 'async']), st.sampled_from([True, True, False]), s_idgen,
            st.sampled_from(SINGLE_NOTATIONS + BATCH_NOTATIONS + BATCH_NOTATIONS), st.sampled_from(SINGLE_NOTATIONS + BATCH_NOTATIONS),
            st.lists(step(), min_size=1, max_size=4), stdreg.behaviours(True), st.integers(0, 1000), st.integers(1, 3),
        )

    def corpus(self):
        base = {'client': 'sync', 'dispatcher': 'sync', 'strict': True, 'id_gen': {'kind': 'sequential', 'start': 1, 'step': 1}, 'behaviours': {}, 'seed': 0}
        n = lambda m, a: {'method': m, 'args': a, 'kwargs': {}, 'kind': 'notification'}  # noqa: E731
        c = lambda m, a, k=None: {'method': m, 'args': a, 'kwargs': k or {}, 'kind': 'call'}  # noqa: E731
        return [
            {**base, 'notation': 'batch-add', 'other': 'batch-send', 'plan': [n('echo', [1]), n('boom', [])]},
            {**base, 'client': 'async', 'dispatcher': 'async', 'notation': 'batch-call', 'other': 'batch-add', 'plan': [n('noargs', []), n('noargs', [])]},
            {**base, 'notation': 'batch-getitem', 'other': 'batch-proxy', 'plan': [c('echo', [1, 2]), c('noargs', []), c('ret', [None])]},
            {**base, 'notation': 'proxy', 'other': 'send', 'plan': [c('rpc_err2', []), c('nope', [])]},
            {**base, 'notation': 'proxy', 'other': 'call', 'plan': [c('_us', [1]), n('_us', [])]},
            *[{**base, 'strict': strict, 'id_gen': {'kind': 'randint-narrow'}, 'notation': nt, 'other': 'call', 'plan': [c('echo', [1]), n('noargs', []), c('echo', [2])]}
              for nt in ('batch-add', 'batch-call', 'batch-getitem', 'batch-proxy', 'batch-send') for strict in (True, False)],
            {**base, 'notation': 'batch-mixed', 'other': 'batch-add', 'plan': [c('echo', [1, 2]), n('noargs', []), c('echo', [3, 4])]},
            {**base, 'client': 'async', 'dispatcher': 'async', 'strict': False, 'notation': 'batch-mixed', 'other': 'batch-send', 'plan': [n('echo', [1]), c('ret', [])]},
            {**base, 'notation': 'call', 'other': 'batch-add', 'plan': [c('wrapped', [1]), c('rpc.ext', [2]), {'method': 'rpc.ext', 'args': [], 'kwargs': {'a': 3}, 'kind': 'notification'}, c('wrapped', [], {'a': 4})]},
            {**base, 'client': 'async', 'dispatcher': 'async', 'notation': 'batch-getitem', 'other': 'proxy', 'plan': [c('wrapped', [1]), c('rpc.ext', [2])]},
            {**base, 'notation': 'call', 'other': 'batch-add', 'plan': [c('rpc_err', [])],
             'behaviours': {'rpc_err': {'kind': 'raise_rpc', 'error': {'cls': 'Custom2006Refined', 'code': None, 'message': None, 'data': {'absent': True}}}}},
            {**base, 'client': 'async', 'dispatcher': 'async', 'notation': 'proxy', 'other': 'batch-proxy', 'plan': [c('_us', [], {'a': [1]})]},
            {**base, 'max_batch_size': 1, 'notation': 'batch-add', 'other': 'batch-getitem', 'plan': [c('echo', [1]), c('echo', [2])]},
            {**base, 'client': 'async', 'dispatcher': 'async', 'max_batch_size': 2, 'notation': 'batch-call', 'other': 'batch-proxy', 'plan': [c('echo', [1]), c('ret', []), c('noargs', [])]},
            {**base, 'client': 'async', 'dispatcher': 'sync', 'max_batch_size': 1, 'notation': 'batch-send', 'other': 'batch-reuse', 'plan': [c('echo', [1]), n('ret', [])]},
            {**base, 'notation': 'batch-send', 'other': 'batch-add', 'batch_strict': False, 'plan': [c('echo', [1]), c('ret', []), n('noargs', [])]},
            # one batch object sent while it holds notifications only, then grown by calls and sent again (and the other way round)
            {**base, 'notation': 'batch-reuse', 'other': 'batch-add', 'split': 1, 'plan': [n('echo', [1]), c('echo', [2]), c('ret', [])]},
            {**base, 'strict': False, 'client': 'async', 'dispatcher': 'async', 'notation': 'batch-reuse', 'other': 'batch-send', 'split': 2,
             'plan': [n('noargs', []), n('echo', [1]), c('echo', [2])]},
            {**base, 'notation': 'batch-reuse', 'other': 'batch-call', 'split': 2, 'plan': [c('echo', [1]), c('echo', [2]), n('ret', []), c('noargs', [])]},
            {**base, 'id_gen': {'kind': 'sequential', 'start': 0, 'step': 1}, 'notation': 'call', 'other': 'batch-add', 'plan': [c('echo', [], {'a': 0})]},
            # library exceptions raised from inside a method body are ordinary server errors for the caller (both dispatchers)
            {**base, 'notation': 'call', 'other': 'batch-add', 'plan': [c('boom', []), c('boom2', [])],
             'behaviours': {'boom': {'kind': 'raise_exc', 'exc': 'ValidationError', 'marker': 'MARKER-v7-zq'},
                            'boom2': {'kind': 'raise_exc', 'exc': 'DeserializationError', 'marker': 'MARKER-d7-zq'}}},
            {**base, 'notation': 'call', 'other': 'batch-add', 'plan': [c('boom', []), c('echo', [1])],
             'behaviours': {'boom': {'kind': 'raise_exc', 'exc': 'ZzUnprintable', 'marker': 'MARKER-u7-zq'}}},
            {**base, 'client': 'async', 'dispatcher': 'async', 'notation': 'batch-call', 'other': 'proxy', 'plan': [c('boom', []), c('echo', [1])],
             'behaviours': {'boom': {'kind': 'raise_exc', 'exc': 'ZzUnprintable', 'marker': 'MARKER-u7-zq'}}},
            {**base, 'client': 'async', 'dispatcher': 'async', 'notation': 'proxy', 'other': 'batch-send', 'plan': [c('boom', []), n('boom2', [])],
             'behaviours': {'boom': {'kind': 'raise_exc', 'exc': 'ValidationError', 'marker': 'MARKER-v7-zq'},
                            'boom2': {'kind': 'raise_exc', 'exc': 'TimeoutError', 'marker': 'MARKER-t7-zq'}}},
        ]

    # ---- executing one notation ----------------------------------------------------------------------------

    def _expressible(self, notation: str, plan: List[Dict[str, Any]]) -> bool:
        if notation == 'batch-getitem':
            return all(p['kind'] == 'call' and not p['kwargs'] for p in plan)
        if notation == 'batch-proxy':
            return all(p['kind'] == 'call' for p in plan)
        if notation == 'batch-reuse':
            return len(plan) >= 2
        if notation == 'batch-mixed':
            return len(plan) >= 2 and plan[-1]['kind'] == 'call' and not plan[-1]['kwargs']
        if notation == 'batch-mixed-proxy':
            return len(plan) >= 2 and plan[-1]['kind'] == 'call'
        return True

    @staticmethod
    def _mbs(spec: Any, notation: str = '') -> Any:
        """the dispatcher's max_batch_size, if the case sets one (only for plans that contain a call: the refusal of a batch is then
        an error response the caller must get as an exception)"""
        m = spec.get('max_batch_size')
        if notation == 'batch-reuse':
            return None     # its first send may consist of notifications only
        return m if m and any(p['kind'] == 'call' for p in spec['plan']) else None

    @staticmethod
    def _split(spec: Any) -> int:
        return max(1, min(len(spec['plan']) - 1, spec.get('split', 1)))

    def _run_notation(self, spec: Any, notation: str) -> Dict[str, Any]:
        ckind, dkind = spec['client'], spec['dispatcher']
        registry = stdreg.std_registry(dkind)
        behaviours = stdreg.effective_behaviours(spec['behaviours'])
        sentinel = object()
        hm.RT.reset(sentinel, behaviours, error_builder=sh.build_error, yield_once=(dkind == 'async'))
        mbs = self._mbs(spec, notation)
        disp = hm.build_dispatcher(dkind, registry, **({'max_batch_size': mbs} if mbs else {}))
        random.seed(spec['seed'])
        client = ch.make_client(ckind, ch.loopback_transport(dkind, disp, sentinel), strict=spec['strict'], id_gen_impl=id_gen(spec['id_gen']),
                                **({'error_cls': he.BY_NAME[spec['error_cls']]} if spec.get('error_cls') else {}))
        plan = spec['plan']
        outcomes: List[Tuple[str, Any]] = []    # ('value', v) | ('exc', e) per logical send (single notations) or one for the batch

        def attempt(fn):
            try:
                outcomes.append(('value', ch.call(ckind, fn)))
            except Exception as e:
                outcomes.append(('exc', e))

        if notation in SINGLE_NOTATIONS:
            for p in plan:
                a, k = p['args'], p['kwargs']
                if p['kind'] == 'notification':
                    attempt(lambda: client.notify(p['method'], *a, **k))
                elif notation == 'call':
                    attempt(lambda: client.call(p['method'], *a, **k))
                elif notation == '__call__':
                    attempt(lambda: client(p['method'], *a, **k))
                elif notation == 'proxy':
                    attempt(lambda: getattr(client.proxy, p['method'])(*a, **k))
                else:
                    def via_send():
                        req = pjrpc.Request(p['method'], a or k, id=next(client.id_gen_impl()))
                        r = client.send(req)
                        if ckind == 'async':
                            async def go():
                                return (await r).result
                            return go()
                        return r.result
                    attempt(via_send)
        else:
          try:
              b = client.batch
              if notation == 'batch-add':
                  for p in plan:
                      (b.add if p['kind'] == 'call' else b.notify)(p['method'], *p['args'], **p['kwargs'])
                  attempt(lambda: b.call())
              elif notation == 'batch-reuse':
                  k = self._split(spec)
                  for p in plan[:k]:
                      (b.add if p['kind'] == 'call' else b.notify)(p['method'], *p['args'], **p['kwargs'])
                  attempt(lambda: b.call())
                  for p in plan[k:]:
                      (b.add if p['kind'] == 'call' else b.notify)(p['method'], *p['args'], **p['kwargs'])
                  attempt(lambda: b.call())
              elif notation == 'batch-mixed':
                  for p in plan[:-1]:
                      if p['kind'] == 'call':
                          b = b(p['method'], *p['args'], **p['kwargs'])
                      else:
                          b = b.notify(p['method'], *p['args'], **p['kwargs'])
                  last = plan[-1]
                  attempt(lambda: b[(last['method'], *last['args']),])
              elif notation == 'batch-mixed-proxy':
                  k = len(plan) - 1
                  while k > 1 and plan[k - 1]['kind'] == 'call':
                      k -= 1
                  for p in plan[:k]:
                      if p['kind'] == 'call':
                          b = b.add(p['method'], *p['args'], **p['kwargs'])
                      else:
                          b = b.notify(p['method'], *p['args'], **p['kwargs'])
                  pr = b.proxy
                  for p in plan[k:]:
                      pr = getattr(pr, p['method'])(*p['args'], **p['kwargs'])
                  attempt(lambda: pr.call())
              elif notation == 'batch-call':
                  for p in plan:
                      if p['kind'] == 'call':
                          b = b(p['method'], *p['args'], **p['kwargs'])
                      else:
                          b = b.notify(p['method'], *p['args'], **p['kwargs'])
                  attempt(lambda: b.call())
              elif notation == 'batch-getitem':
                  attempt(lambda: b[tuple((p['method'], *p['args']) for p in plan)])
              elif notation == 'batch-proxy':
                  pr = b.proxy
                  for p in plan:
                      pr = getattr(pr, p['method'])(*p['args'], **p['kwargs'])
                  attempt(lambda: pr.call())
              else:
                  gen = client.id_gen_impl()
                  try:
                      breq = pjrpc.BatchRequest(*[
                          pjrpc.Request(p['method'], p['args'] or p['kwargs'], id=next(gen) if p['kind'] == 'call' else None) for p in plan],
                          strict=spec.get('batch_strict', True) or spec['id_gen']['kind'] == 'randint-narrow')      # a hand-built batch that does not police duplicate ids (only used when there are none)
                  except Exception as e:
                      outcomes.append(('exc', e))
                      breq = None
                  if breq is not None:
                      def via_send():
                          r = client.batch.send(breq)
                          if ckind == 'async':
                              async def go():
                                  rr = await r
                                  return None if rr is None else rr.result
                              return go()
                          return None if r is None else r.result
                      attempt(via_send)
          except Exception as e:      # building the batch itself was refused (e.g. duplicate ids): that is the send's outcome
            if not outcomes:
                outcomes.append(('exc', e))
        return {'sent': list(client.sent), 'outcomes': outcomes, 'log': list(hm.RT.log)}

    # ---- oracle -----------------------------------------------------------------------------------------------

    def _expected(self, spec: Any) -> List[ref.Element]:
        registry = stdreg.std_registry(spec['dispatcher'])
        behaviours = stdreg.effective_behaviours(spec['behaviours'])
        out = []
        for i, p in enumerate(spec['plan']):
            req: Dict[str, Any] = {'jsonrpc': '2.0', 'method': p['method']}
            if p['args'] or p['kwargs']:
                req['params'] = jg.jnorm(p['args'] or p['kwargs'])
            if p['kind'] == 'call':
                req['id'] = i + 1
            out.append(ref.serve_element(req, registry, behaviours))
        return out

    def _check_outcome(self, el: ref.Element, got: Tuple[str, Any], where: str, tag: str) -> List[Disc]:
        kind, v = got
        if el.id is None:   # notification
            if kind != 'value' or v is not None:
                return [Disc(f"C07/{tag}/notification-returned-or-raised", f"{v!r} | {where}")]
            return []
        if el.outcome == 'result':
            if kind != 'value':
                return [Disc(f"C07/{tag}/call-raised/{type(v).__name__}", f"{v!r} expected value {jg.short(el.payload)} | {where}")]
            if not jg.jeq(v, el.payload):
                return [Disc(f"C07/{tag}/value-differs", f"{jg.short(v)} expected {jg.short(el.payload)} | {where}")]
            return []
        if kind != 'exc' or not isinstance(v, JsonRpcError):
            return [Disc(f"C07/{tag}/error-not-raised", f"got {v!r} expected error {el.payload} | {where}")]
        code = el.payload['code'] if el.outcome == 'app-error' else el.payload
        want = he.expected_class(code, self._ecn)
        d = []
        if type(v) is not want:
            d.append(Disc(f"C07/{tag}/error-class", f"{type(v).__name__} expected {want.__name__} for code {code} | {where}"))
        if not jg.jeq(v.code, code):
            d.append(Disc(f"C07/{tag}/error-code", f"{v.code!r} expected {code} | {where}"))
        if el.outcome == 'app-error':
            from pjrpc.common import UNSET
            w = el.payload
            data_ok = (v.data is UNSET) if 'data' not in w else (v.data is not UNSET and jg.jeq(v.data, w['data']))
            if not jg.jeq(v.message, w['message']) or not data_ok:
                d.append(Disc(f"C07/{tag}/error-content", f"{v!r} expected {jg.short(w)} | {where}"))
        return d

    _ecn = 'JsonRpcError'

    def _judge(self, spec: Any, notation: str, run: Dict[str, Any], expected: List[ref.Element]) -> List[Disc]:
        plan = spec['plan']
        # the client's error base class decides which class a code is raised as (documented: get_error_cls override; a hierarchy with
        # a registry of its own through a sub-metaclass)
        self._ecn = spec.get('error_cls') or 'JsonRpcError'
        where = f"notation={notation} client={spec['client']} error_cls={spec.get('error_cls')} dispatcher={spec['dispatcher']} idgen={spec['id_gen']} strict={spec['strict']} plan={jg.short(plan, 400)}"
        discs: List[Disc] = []
        single = notation in SINGLE_NOTATIONS
        groups = [[i] for i in range(len(plan))] if single else [list(range(len(plan)))]
        # (0) an id generator that repeats itself: a batch with two calls cannot be given distinct ids - it is refused with the identity
        # error before anything is put on the wire (whatever the client's strict flag says about RESPONSES)
        ncalls = len([p for p in plan if p['kind'] == 'call'])
        if spec['id_gen']['kind'] == 'randint-narrow' and not single and ncalls >= 2:
            from pjrpc.common.exceptions import IdentityError
            got = run['outcomes'][0] if run['outcomes'] else ('value', None)
            if run['sent'] or got[0] != 'exc' or not isinstance(got[1], IdentityError):
                discs.append(Disc("C07/wire/batch-with-duplicate-ids-not-refused", f"sent {[t for t, _ in run['sent']]} outcome {got[1]!r} | {where}"))
            return discs
        # (1) wire documents
        if len(run['sent']) != len(groups):
            discs.append(Disc(f"C07/wire/transport-call-count", f"{len(run['sent'])} transport calls for {len(groups)} sends | {where}"))
            return discs
        gtype = {'sequential': int, 'randint': int, 'randint-narrow': int, 'random': str}.get(spec['id_gen']['kind'])
        for (text, is_notif), idxs in zip(run['sent'], groups):
            try:
                doc = json.loads(text)
            except Exception as e:
                discs.append(Disc("C07/wire/not-json", f"{text[:200]!r}: {e} | {where}"))
                continue
            problems = wf.request_document_problems(doc)
            if problems:
                discs.append(Disc(f"C07/wire/not-a-request-document/{problems[0]}", f"{text[:300]} | {where}"))
                continue
            els = [doc] if single else doc
            if (not single and not isinstance(doc, list)) or len(els) != len(idxs):
                discs.append(Disc("C07/wire/shape", f"{text[:300]} | {where}"))
                continue
            if is_notif != all(plan[i]['kind'] == 'notification' for i in idxs):
                discs.append(Disc("C07/wire/is-notification-flag", f"flag {is_notif} | {where}"))
            for el, i in zip(els, idxs):
                p = plan[i]
                want_params = jg.jnorm(p['args'] or p['kwargs']) if (p['args'] or p['kwargs']) else None
                if el.get('method') != p['method']:
                    discs.append(Disc("C07/wire/method", f"{el.get('method')!r} vs {p['method']!r} | {where}"))
                if want_params is None:
                    if 'params' in el:
                        discs.append(Disc("C07/wire/params-invented", f"{jg.short(el)} | {where}"))
                elif 'params' not in el or not jg.jeq(el['params'], want_params):
                    discs.append(Disc("C07/wire/params", f"{jg.short(el.get('params', '<absent>'))} expected {jg.short(want_params)} | {where}"))
                if p['kind'] == 'notification':
                    if 'id' in el:
                        discs.append(Disc("C07/wire/notification-carries-id", f"{jg.short(el)} | {where}"))
                else:
                    if el.get('id') is None:
                        discs.append(Disc("C07/wire/call-without-id", f"{jg.short(el)} | {where}"))
                    elif gtype is not None and type(el['id']) is not gtype:
                        discs.append(Disc("C07/wire/id-type", f"{el['id']!r} for generator {spec['id_gen']['kind']} | {where}"))
        # (1b) a batch larger than the dispatcher's max_batch_size is refused as a whole: -32600 reaches the caller as the registered
        # exception class and nothing runs
        mbs = self._mbs(spec, notation)
        if not single and mbs and len(plan) > mbs:
            got = run['outcomes'][0] if run['outcomes'] else ('value', None)
            want = he.expected_class(-32600, self._ecn)
            if got[0] != 'exc' or type(got[1]) is not want:
                discs.append(Disc("C07/batch/refused-batch-not-raised", f"got {got[1]!r} expected {want.__name__} (batch of {len(plan)} > max_batch_size {mbs}) | {where}"))
            if run['log']:
                discs.append(Disc("C07/executions", f"a refused batch executed {jg.short(run['log'])} | {where}"))
            return discs
        # (2) outcomes
        if len(run['outcomes']) != len(groups):
            discs.append(Disc("C07/outcome-count", f"{len(run['outcomes'])} outcomes for {len(groups)} sends | {where}"))
            return discs
        if single:
            for el, got in zip(expected, run['outcomes']):
                discs += self._check_outcome(el, got, where, 'single')
        else:
            calls = [el for el in expected if el.id is not None]
            got = run['outcomes'][0]
            if not calls:
                if got != ('value', None):
                    discs.append(Disc("C07/batch/all-notifications-returned-or-raised", f"{got[1]!r} | {where}"))
            else:
                first_err = next((el for el in calls if el.outcome != 'result'), None)
                if first_err is not None:
                    discs += self._check_outcome(first_err, got, where, 'batch')
                elif got[0] != 'value' or not isinstance(got[1], tuple) or not jg.jeq(list(got[1]), [el.payload for el in calls]):
                    discs.append(Disc("C07/batch/results", f"{got[1]!r} expected {jg.short([el.payload for el in calls])} | {where}"))
        # (3) executions: each method run exactly once, in plan order
        want_exec = [el.execution for el in expected if el.execution is not None]
        got_exec = [{'method': e['method'], 'args': e['args']} for e in run['log']]
        ordered = spec['dispatcher'] == 'sync' or single
        same = len(got_exec) == len(want_exec) and (all(jg.jeq(a, b) for a, b in zip(got_exec, want_exec)) if ordered else sh._multiset_eq(got_exec, want_exec))
        if not same:
            discs.append(Disc("C07/executions", f"log {jg.short(got_exec)} expected {jg.short(want_exec)} | {where}"))
        return discs

    def _run_and_judge(self, spec: Any, notation: str, expected: List[ref.Element]):
        if spec['id_gen']['kind'] == 'randint-narrow' and notation in ('batch-reuse', 'batch-mixed', 'batch-mixed-proxy'):
            notation = 'batch-add'      # with a repeating generator the multi-step notations cannot even be built
        run = self._run_notation(spec, notation)
        if notation != 'batch-reuse':
            return run, self._judge(spec, notation, run, expected)
        # two sends of one batch object: the first carries plan[:k], the second the whole plan (the object keeps what was added);
        # each send is judged like a freshly built batch of those calls
        k = self._split(spec)
        if len(run['sent']) != 2 or len(run['outcomes']) != 2:
            return run, [Disc("C07/wire/transport-call-count", f"{len(run['sent'])} transport calls, {len(run['outcomes'])} outcomes for 2 sends of one batch object | "
                                                               f"split={k} plan={jg.short(spec['plan'], 400)}")]
        n1 = len([el for el in expected[:k] if el.execution is not None])
        first = {'sent': run['sent'][:1], 'outcomes': run['outcomes'][:1], 'log': run['log'][:n1]}
        second = {'sent': run['sent'][1:], 'outcomes': run['outcomes'][1:], 'log': run['log'][n1:]}
        discs = self._judge({**spec, 'plan': spec['plan'][:k]}, 'batch-reuse', first, expected[:k])
        discs += self._judge(spec, 'batch-reuse', second, expected)
        return second, discs

    def run_case(self, spec: Any) -> Outcome:
        plan = spec['plan']
        expected = self._expected(spec)
        notation = spec['notation']
        if not self._expressible(notation, plan):
            notation = 'batch-add'
        run, discs = self._run_and_judge(spec, notation, expected)
        classes = [f"notation/{notation}", f"pair/{spec['client']}-{spec['dispatcher']}", f"idgen/{spec['id_gen']['kind']}", f"error_cls/{spec.get('error_cls') or 'default'}",
                   'strict/on' if spec['strict'] else 'strict/off']
        evaluations = 1
        other = spec.get('other')
        if other and other != notation and self._expressible(other, plan):
            run2, discs2 = self._run_and_judge(spec, other, expected)
            evaluations += 1
            discs += discs2
            # interchangeability: same wire documents (when both notations group the sends the same way and ids are reproducible)
            same_grouping = (notation in SINGLE_NOTATIONS) == (other in SINGLE_NOTATIONS)
            if same_grouping and spec['id_gen']['kind'] != 'uuid' and not discs:
                classes.append('interchange/checked')
                a = [json.loads(t) for t, _ in run['sent']]
                b = [json.loads(t) for t, _ in run2['sent']]
                if not jg.jeq(a, b):
                    discs.append(Disc("C07/interchange/wire-documents-differ", f"{notation}: {jg.short(a, 400)} {other}: {jg.short(b, 400)}"))
        for el in expected:
            if el.outcome == 'app-error':
                classes.append('outcome/typed-error' if el.payload['code'] in he.GLOBAL else 'outcome/unregistered-error')
            elif el.outcome == 'lib-error' and el.payload == -32000:
                classes.append('outcome/server-error')
        kinds = {p['kind'] for p in plan}
        if kinds == {'notification'}:
            classes.append('plan/all-notifications')
        elif len(kinds) == 2:
            classes.append('plan/mixed')
        nonscalar = any(isinstance(v, (list, dict)) and v for p in plan for v in list(p['args']) + list(p['kwargs'].values()))
        nontrivial = len(plan) >= 2 or any(el.outcome != 'result' for el in expected) or 'notification' in kinds or nonscalar
        return Outcome(discs, nontrivial, sorted(set(classes)), evaluations)


CHECK = C07()

MANIFEST = dict(
    technique="property-based testing (Hypothesis) of client notations looped back into the library's own dispatcher, judged by a reference server (twin-function calls), a request-document validator and a notation-vs-notation differential",
    level_text=(
        "Generated call plans are executed through each client notation against the real dispatcher in memory (all four sync/async "
        "pairings, all built-in id generators, strict on/off); the wire text must be a valid request document equal to the expected one up "
        "to id values, the caller's value / exception must equal what the reference server derives from calling the function, the server "
        "log must show each method once, and two notations must emit the same documents. Sampling over plans of <= 4 calls."
    ),
    level_note="trusts pbt/refserver.py, pbt/wellformed.py and python call binding; library-generated errors compared by class and code; KF-C07-1 (uuid ids) muted by predicate",
)
