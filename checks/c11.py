"""
C11 - the synchronous and the asynchronous halves behave identically: same response document, codes and executions from
both dispatchers (and the async dispatcher serves plain functions like coroutines); same request documents, results,
exceptions, tracer events and sleeps from both clients.  Differential, no model.
"""

import json
from types import SimpleNamespace
from typing import Any, Dict, List

from hypothesis import strategies as st

import pjrpc
from pjrpc.common import UNSET
from pjrpc.common.exceptions import JsonRpcError

from pbt import clientharness as ch, docs, jsongen as jg, methods as hm, refserver as ref, serverharness as sh, stack, stdreg
from pbt.runner import Check, Disc, Outcome

from checks import c07, c09, c12, c19
from checks.c01 import BATCH_LIMITS, CODEC_CHOICES, batch_limit


def summarise_value(v: Any) -> Any:
    if isinstance(v, (pjrpc.Response, pjrpc.BatchResponse)):
        return ['response', v.to_json()]
    if isinstance(v, tuple):
        return ['tuple', list(v)]
    return ['value', v]


def summarise_exc(e: Any) -> Any:
    if e is None:
        return None
    if isinstance(e, JsonRpcError):
        return [type(e).__name__, e.code, e.message, 'UNSET' if e.data is UNSET else ['data', e.data]]
    return [type(e).__name__, str(e)[:200]]


class C11(Check):
    pid = 'C11'
    level = 'exploration'
    quick_examples = 3000
    thorough_examples = 30000
    rule = (
        "[drawn in addition since rounds 13-15: BaseException outcome as harness class or asyncio.CancelledError on both halves; handlers record the class of the error's cause; a tracer whose on_request_end raises; request texts nested beyond the decoder's limit] "
        "cases: (server) the request corpus of C01-C03 and the middleware / error-handler configurations of C12 - each case is dispatched by the "
        "sync dispatcher (plain functions), the async dispatcher (coroutines and async views) and the async dispatcher with the sync "
        "registry (plain functions); (client-script) C19's per-attempt outcome words x retry strategies x 0..3 tracers x single / batch / "
        "notification x caller / default trace context x strict on / off x JSON codec configured on the client {defaults, encoder / decoder classes, loader / dumper functions: floats parsed as Decimal, Decimal parameters written as tagged strings}; (client-retry) C09's strategies x outcome words x placements; (client-notation) "
        "C07's call plans x notations x id generators through sync-client+sync-dispatcher and async-client+async-dispatcher. Oracle "
        "(differential): identical response document + codes + execution log + middleware/handler event log; identical wire documents and transport keyword arguments (client-wide request_args merged with per-call ones), "
        "returned values, exception class / code / message / data, tracer event sequence and sleep sequence. non-trivial as in the source "
        "property of the case (failing element / >= 2 middlewares or handlers / retry happened / >= 2 attempts or tracers / plan with >= 2 "
        "calls, failure or notification); distinct = distinct spec."
    )
    assumptions = [
        "methods do not suspend (interleavings are C10's subject), so execution logs are compared as sequences",
        "BaseException outcomes use the same class on both halves: a harness BaseException subclass, or asyncio.CancelledError raised by the transport of either client",
        "random-based id generators are reseeded identically before each half; the uuid generator is not used here",
    ]
    trusted_base = ['none beyond the harness: both halves are the implementation under test']
    required_classes = ['server/plain', 'server/stack', 'client-script', 'client-retry', 'client-notation', 'server/async-plain-functions', 'codec/classes', 'codec/functions', 'strict/off', 'client-notation/empty-batch']

    def strategy(self, tier: str):
        def server_plain():
            reg = stdreg.std_registry('sync')
            return st.builds(lambda text, beh, mbs, codec: {'kind': 'server', 'max_batch_size': batch_limit(text, mbs), 'behaviours': beh, 'text': text,
                                                            'middlewares': [], 'handlers': None, 'codec': codec},
                             docs.document(reg), stdreg.behaviours(True), st.sampled_from(BATCH_LIMITS), st.sampled_from(CODEC_CHOICES + ['cls-ignoring']))
        s12 = c12.CHECK.strategy(tier).map(lambda s: {'kind': 'server', 'max_batch_size': None, 'behaviours': s['behaviours'], 'text': s['text'],
                                                      'middlewares': s['middlewares'], 'handlers': s['handlers'], 'mw_container': s.get('mw_container', 'list'),
                                                      'custom_classes': bool(s.get('custom_classes'))})
        s_codec = st.sampled_from(['default', 'default'] + ch.CODECS[1:])
        s_strict = st.sampled_from([True, True, False])
        s_base = st.sampled_from(['HarnessBaseExc', 'CancelledError'])
        s19 = st.tuples(c19.CHECK.strategy(tier), s_codec, s_strict, s_base).map(lambda t: {**t[0], 'kind': 'client-script', 'codec': t[1], 'strict': t[2], 'base_exc': t[3],
                                                                                                    'tracer_end_raises': (t[0]['tracers'] + len(t[0]['outcomes'][0])) % 4 == 0})
        s09 = st.tuples(c09.CHECK.strategy(tier), s_codec, s_strict).map(lambda t: {**t[0], 'kind': 'client-retry', 'codec': t[1], 'strict': t[2]})
        s07 = c07.CHECK.strategy(tier).filter(lambda s: s['id_gen']['kind'] != 'uuid').map(lambda s: {**s, 'kind': 'client-notation'})
        # a batch object nothing was added to, sent through every batch notation (both halves must do the same thing with it)
        s_empty = st.builds(lambda n, strict, d: {'kind': 'client-notation', 'client': 'sync', 'dispatcher': d, 'strict': strict, 'id_gen': {'kind': 'sequential', 'start': 1, 'step': 1},
                                                  'notation': n, 'other': None, 'plan': [], 'behaviours': {}, 'seed': 0},
                            st.sampled_from(c07.BATCH_NOTATIONS), st.booleans(), st.sampled_from(['sync', 'async']))
        return jg.weighted(server_plain(), server_plain(), s12, s19, s09, s07, s07, s07, s07, s_empty)

    def corpus(self):
        t = lambda doc: {'doc': doc, 'ascii': True, 'indent': 0, 'pad': '', 'huge': None, 'mangle': None}  # noqa: E731
        out = []
        for exc in dict.fromkeys(stdreg.EXC_NAMES):     # every exception type once, raised by a coroutine / plain function on the async side
            beh = {'boom': {'kind': 'raise_exc', 'exc': exc, 'marker': 'MARKER-c11-zq'}, 'boom2': {'kind': 'raise_exc', 'exc': exc, 'marker': 'MARKER-c11-zq'}}
            out.append({'kind': 'server', 'max_batch_size': None, 'behaviours': beh, 'middlewares': [], 'handlers': None,
                        'text': t([{'jsonrpc': '2.0', 'id': 1, 'method': 'boom'}, {'jsonrpc': '2.0', 'id': 2, 'method': 'boom2'}, {'jsonrpc': '2.0', 'method': 'boom'}])})
            # ... and once more in front of a recording error handler (which also records the class of the error's cause)
            out.append({'kind': 'server', 'max_batch_size': None, 'behaviours': beh, 'middlewares': [], 'handlers': {'generic': [{'kind': 'identity'}], 'codes': [], 'key_order': 'generic-first'},
                        'text': t([{'jsonrpc': '2.0', 'id': 1, 'method': 'boom'}, {'jsonrpc': '2.0', 'method': 'boom2'}])})
        # request texts nested far beyond what the JSON decoder follows (outside C01's 64 levels: whether the dispatcher answers or raises
        # here is not asserted - only that both halves do the same)
        for raw in ('[' * 100000, '{"a":' * 50000, '{"jsonrpc":"2.0","id":1,"method":"echo","params":' + '[' * 100000 + ']' * 100000 + '}', '[' * 3000 + ']' * 3000):
            out.append({'kind': 'server', 'max_batch_size': None, 'behaviours': {}, 'middlewares': [], 'handlers': None, 'text': {'raw': raw}})
        # plain functions served by the async dispatcher returning every falsy / edge JSON value (a result is a result, whatever its truth value)
        for value in (0, False, 0.0, '', [], {}, None, -0.0, 1, True):
            out.append({'kind': 'server', 'max_batch_size': None, 'behaviours': {'ret': {'kind': 'return', 'value': value}}, 'middlewares': [], 'handlers': None,
                        'text': t([{'jsonrpc': '2.0', 'id': 1, 'method': 'ret'}, {'jsonrpc': '2.0', 'id': 2, 'method': 'echo', 'params': [value]},
                                   {'jsonrpc': '2.0', 'id': 3, 'method': 'wrapped', 'params': [value]}])})
        for codec in ch.CODECS[1:] + ['cls-ignoring']:
            out.append({'kind': 'server', 'max_batch_size': None, 'behaviours': {}, 'middlewares': [], 'handlers': None, 'codec': codec,
                        'text': t([{'jsonrpc': '2.0', 'id': 1, 'method': 'echo', 'params': [1.5]}, {'jsonrpc': '2.0', 'id': 2, 'method': 'echo', 'params': {'a': [0.25]}}])})
        for notation in c07.BATCH_NOTATIONS:
            for strict in (True, False):
                out.append({'kind': 'client-notation', 'client': 'sync', 'dispatcher': 'sync', 'strict': strict, 'id_gen': {'kind': 'sequential', 'start': 1, 'step': 1},
                            'notation': notation, 'other': None, 'plan': [], 'behaviours': {}, 'seed': 0})
        # non-strict scripted clients: a notification (and a notification-only batch) whose transport answers with a body
        for rk in ('notification', 'single', 'batch'):
            for word in (['not-response', 'ok'], ['scalar-body', 'ok'], ['identity', 'ok'], ['not-json', 'ok']):
                out.append({'kind': 'client-script', 'strict': False, 'request': rk, 'outcomes': word, 'tracers': 1, 'ctx': 'default', 'strategy': None})
        # a transport that is cancelled / interrupted: both halves tell the tracers and re-raise
        for rk in ('notification', 'single', 'batch'):
            for be in ('HarnessBaseExc', 'CancelledError'):
                out.append({'kind': 'client-script', 'base_exc': be, 'request': rk, 'outcomes': ['base-exc', 'ok'], 'tracers': 2, 'ctx': 'default', 'strategy': None})
        # a tracer whose on_request_end raises: whatever the library does about it, both halves do the same
        for rk in ('notification', 'single', 'batch'):
            for word in (['ok', 'ok'], ['listed-code', 'ok'], ['unlisted-exc', 'ok']):
                out.append({'kind': 'client-script', 'tracer_end_raises': True, 'request': rk, 'outcomes': word, 'tracers': 2, 'ctx': 'default', 'strategy': None})
        # scripted clients with an application JSON codec, every request kind
        for codec in ch.CODECS[1:]:
            for rk in ('single', 'batch', 'notification'):
                out.append({'kind': 'client-script', 'codec': codec, 'request': rk, 'outcomes': ['listed-code', 'ok'], 'tracers': 1, 'ctx': 'default',
                            'strategy': c19.strategy_for(2)})
        # middleware stacks and handler tables (generic handlers that replace the code + per-code handlers for old and new codes)
        batch = t([{'jsonrpc': '2.0', 'id': 1, 'method': 'nope'}, {'jsonrpc': '2.0', 'method': 'boom'}, {'jsonrpc': '2.0', 'id': 2, 'method': 'echo', 'params': [1]},
                   {'jsonrpc': '2.0', 'id': 3, 'method': 'echo'}, {'jsonrpc': '2.0', 'id': 4, 'method': 'bad.get'}])
        for generic in ([{'kind': 'replace'}], [{'kind': 'annotate'}, {'kind': 'replace'}], [{'kind': 'identity'}], []):
            for mws in ([], [{'kind': 'pass'}, {'kind': 'rewrite-response'}], [{'kind': 'rewrite-request', 'method': 'nope', 'params': []}, {'kind': 'pass'}], [{'kind': 'short'}]):
                out.append({'kind': 'server', 'max_batch_size': None, 'behaviours': {}, 'middlewares': mws, 'text': batch,
                            'handlers': {'generic': generic, 'codes': [[-32601, [{'kind': 'annotate'}]], [-32000, [{'kind': 'replace'}]], [-32602, [{'kind': 'annotate'}]],
                                                                     [-32603, [{'kind': 'identity'}]], [c12.stack.REPLACE_BASE, [{'kind': 'annotate'}]],
                                                                     [c12.stack.REPLACE_BASE + 1, [{'kind': 'annotate'}]]]}})
        return out

    def run_case(self, spec: Any) -> Outcome:
        return getattr(self, '_run_' + spec['kind'].replace('-', '_'))(spec)

    # ---- server ----------------------------------------------------------------------------------------------

    def _serve(self, spec: Any, dkind: str, regkind: str) -> Dict[str, Any]:
        is_async = dkind == 'async'
        ev = stack.Events()
        sentinel = object()
        ev.sentinel = sentinel
        behaviours = stdreg.effective_behaviours(spec['behaviours'])
        hm.RT.reset(sentinel, behaviours, error_builder=sh.build_error)
        mws = stack.build_middlewares(spec['middlewares'], ev, is_async)
        table = stack.build_handlers(spec['handlers'], ev, is_async, observe_cause=True)
        container = spec.get('mw_container', 'list')
        kw: Dict[str, Any] = {'middlewares': mws if container == 'list' else tuple(mws) if container == 'tuple' else (m for m in mws), 'error_handlers': table}
        if spec.get('max_batch_size') is not None:
            kw['max_batch_size'] = spec['max_batch_size']
        if spec.get('codec', 'default') != 'default':
            from pbt import codecs
            kw.update(codecs.kwargs_for(spec['codec'], 'server'))
        counts: Dict[str, int] = {}
        if spec.get('custom_classes'):
            # behaviour-preserving subclasses that count how often the dispatcher instantiates them: both halves use the configured
            # classes for the same things
            def counting(base: Any, name: str) -> Any:
                def __init__(self, *a: Any, **k: Any) -> None:
                    counts[name] = counts.get(name, 0) + 1
                    base.__init__(self, *a, **k)
                return type(name, (base,), {'__init__': __init__})
            kw.update({'request_class': counting(pjrpc.Request, 'AppRequest'), 'response_class': counting(pjrpc.Response, 'AppResponse'),
                       'batch_request': counting(pjrpc.BatchRequest, 'AppBatchRequest'), 'batch_response': counting(pjrpc.BatchResponse, 'AppBatchResponse')})
        d = hm.build_dispatcher(dkind, stdreg.std_registry(regkind), **kw)
        text = docs.render(spec['text'])
        out: Dict[str, Any] = {'text': text}
        try:
            r = hm.run_dispatch(dkind, d, text, sentinel)
            out['raised'] = None
        except Exception as e:
            r = None
            out['raised'] = [type(e).__name__, str(e)[:200]]
        if r is None:
            out['doc'], out['codes'] = ref.NOTHING, None
        else:
            try:
                out['doc'] = json.loads(r[0])
            except Exception:
                out['doc'] = ['unparsable', r[0][:200]]
            out['codes'] = list(r[1])
        out['log'] = [{'method': e['method'], 'args': e['args'], 'ctx': e['ctx']} for e in hm.RT.log]
        out['events'] = list(ev.log)
        out['classes'] = dict(sorted(counts.items()))
        return out

    def _run_server(self, spec: Any) -> Outcome:
        a = self._serve(spec, 'sync', 'sync')
        b = self._serve(spec, 'async', 'async')
        c = self._serve(spec, 'async', 'sync')
        discs: List[Disc] = []
        where = f"request={a['text'][:250]!r} mws={[m['kind'] for m in spec['middlewares']]} handlers={jg.short(spec['handlers'], 150)} mbs={spec.get('max_batch_size')}"
        for name, other in (('async', b), ('async-plain-functions', c)):
            for key in ('raised', 'doc', 'codes', 'log', 'events', 'classes'):
                x, y = a[key], other[key]
                same = (x == y) if isinstance(x, str) or isinstance(y, str) else jg.jeq(x, y) if x is not None and y is not None else x is y
                if not same:
                    discs.append(Disc(f"C11/server/{name}/{key}", f"sync {jg.short(x, 300)} vs {name} {jg.short(y, 300)} | {where}"))
                    break
        exp = ref.expect(a['text'], stdreg.std_registry('sync'), stdreg.effective_behaviours(spec['behaviours']), spec.get('max_batch_size'))
        stackish = bool(spec['middlewares']) or bool(spec['handlers'])
        nontrivial = (not exp.elements) or any(e.outcome != 'result' for e in exp.elements) or len(spec['middlewares']) >= 2
        return Outcome(discs, nontrivial, ['server/stack' if stackish else 'server/plain', 'server/async-plain-functions', exp.klass], evaluations=3)

    # ---- scripted clients ---------------------------------------------------------------------------------------

    def _script(self, spec: Any, kind: str, outcomes: List[Dict[str, Any]], rkind: str, strategy, placement: str = 'client') -> Dict[str, Any]:
        def transport(text: str, is_notification: bool, k: int):
            o = outcomes[min(k, len(outcomes) - 1)]
            if o['kind'] == 'exc':
                raise ch.EXC[o['exc']](f"attempt {k}")
            if o['kind'] == 'base':
                # the same class on both halves: a harness BaseException subclass or asyncio's cancellation (the property's own example)
                raise ch.EXC[spec.get('base_exc', 'HarnessBaseExc')](f"attempt {k}")
            if o['kind'] == 'body':
                return o['body']
            if is_notification:
                return None
            doc = json.loads(text)
            els = [x for x in doc if 'id' in x] if isinstance(doc, list) else [doc]
            if o['kind'] == 'batch_code' and isinstance(doc, list):
                return json.dumps({'jsonrpc': '2.0', 'id': None, 'error': {'code': o['code'], 'message': 'e', 'data': {'attempt': k}}})
            out = []
            for n, el in enumerate(els):
                rid = 'other-id' if (o['kind'] == 'identity' and n == 0) else el['id']
                if o['kind'] in ('code', 'batch_code') and n == 0:
                    out.append({'jsonrpc': '2.0', 'id': rid, 'error': {'code': o['code'], 'message': 'e', 'data': {'attempt': k, 'ratio': 0.25}}})
                else:
                    out.append({'jsonrpc': '2.0', 'id': rid, 'result': {'attempt': k, 'ratio': 0.5}})
            return json.dumps(out if isinstance(doc, list) else out[0])

        log: List[List[Any]] = []
        kwargs: Dict[str, Any] = {'tracers': ch.make_tracers(spec.get('tracers', 0), log, 'end-raises' if spec.get('tracer_end_raises') else 'full')}
        send_kw: Dict[str, Any] = {}
        other = {'attempts': 3, 'codes': [2002, 2001], 'exceptions': ['ExcU', 'ExcE'], 'backoff': {'kind': 'periodic', 'interval': 9.0}, 'jitter': []}
        if strategy is not None:
            if placement == 'client':
                kwargs['retry_strategy'] = ch.build_strategy(strategy)
            elif placement == 'request':
                kwargs['retry_strategy'] = ch.build_strategy(other)
                send_kw['_retry_strategy'] = ch.build_strategy(strategy)
            elif placement == 'request-none':
                kwargs['retry_strategy'] = ch.build_strategy(strategy)
                send_kw['_retry_strategy'] = None
        # client-wide transport arguments and per-call ones (the per-call value of a shared key must win, on both halves)
        kwargs['request_args'] = {'timeout': 5, 'verify': False}
        send_kw.update({'timeout': 1, 'headers': {'x': 'y'}})
        # the JSON codec the application configured on the client (classes or functions); with it a Decimal parameter is sendable
        codec = spec.get('codec', 'default')
        kwargs.update(ch.codec_kwargs(codec))
        kwargs['strict'] = spec.get('strict', True)
        one: Any = 1
        if codec != 'default':
            import decimal
            one = decimal.Decimal('1.5')
        client = ch.make_client(kind, transport, **kwargs)
        ctx = SimpleNamespace(tag='caller') if spec.get('ctx') == 'caller' else None
        if rkind == 'batch':
            req: Any = pjrpc.BatchRequest(pjrpc.Request('m', [one], id=1), pjrpc.Request('n', [2], id=2), pjrpc.Request('note', [3]))
            fn = lambda: client.batch.send(req, _trace_ctx=ctx, **send_kw)  # noqa: E731
        else:
            req = pjrpc.Request('m', [one], id=None if rkind == 'notification' else 1)
            fn = lambda: client.send(req, _trace_ctx=ctx, **send_kw)  # noqa: E731
        with ch.captured_sleeps() as sleeps:
            try:
                value, exc = ch.call(kind, fn), None
            except BaseException as e:  # noqa
                value, exc = None, e
        # a follow-up request through the SAME client without any per-call transport arguments: it gets the client-wide ones only
        n_main = len(client.request_kwargs)
        with ch.captured_sleeps():
            try:
                ch.call(kind, lambda: client.send(pjrpc.Request('follow', [0], id=99)))
            except BaseException:  # noqa
                pass
        follow_kwargs = [dict(sorted(k.items())) for k in client.request_kwargs[n_main:]]
        del client.sent[n_main:]
        del client.request_kwargs[n_main:]
        del log[sum(1 for e in log if e[4] is req or e[4] is not None and getattr(e[4], 'method', None) != 'follow'):]
        ctx_ids: Dict[int, int] = {}
        events = []
        for e in log:
            ctx_ids.setdefault(e[2], len(ctx_ids))
            payload = None if e[5] is None else (summarise_exc(e[5]) if isinstance(e[5], BaseException) else summarise_value(e[5]))
            events.append([e[0], e[1], ctx_ids[e[2]], e[3] is ctx if ctx is not None else None, payload])
        return {'sent': [[json.loads(t), n] for t, n in client.sent], 'sent_text': [t for t, n in client.sent], 'value': summarise_value(value), 'exc': summarise_exc(exc),
                'events': events, 'sleeps': list(sleeps), 'transport_kwargs': [dict(sorted(k.items())) for k in client.request_kwargs],
                'follow_up_kwargs': follow_kwargs}

    def _compare_clients(self, tag: str, a: Dict[str, Any], b: Dict[str, Any], where: str) -> List[Disc]:
        want = {'headers': {'x': 'y'}, 'timeout': 1, 'verify': False}
        for half, o in (('sync', a), ('async', b)):
            if any(k != want for k in o['transport_kwargs']):
                return [Disc(f"C11/{tag}/transport-arguments/{half}", f"transport got {o['transport_kwargs'][:2]} expected {want} on every attempt | {where}")]
        for half, o in (('sync', a), ('async', b)):
            if any(k != {'timeout': 5, 'verify': False} for k in o['follow_up_kwargs']):
                return [Disc(f"C11/{tag}/transport-arguments-leak-into-the-next-request/{half}",
                             f"a later request without per-call arguments got {o['follow_up_kwargs'][:2]} (client-wide: timeout=5, verify=False) | {where}")]
        for key in ('sent', 'sent_text', 'exc', 'value', 'events', 'sleeps', 'transport_kwargs', 'follow_up_kwargs'):
            x, y = a[key], b[key]
            if not ((x is None and y is None) or (x is not None and y is not None and jg.jeq(x, y))):
                return [Disc(f"C11/{tag}/{key}", f"sync {jg.short(x, 350)} vs async {jg.short(y, 350)} | {where}")]
        return []

    def _run_client_script(self, spec: Any) -> Outcome:
        rkind = spec['request']
        outcomes = [dict(c19.OUTCOMES[n]) for n in spec['outcomes']]
        where = f"request={rkind} tracers={spec['tracers']} ctx={spec['ctx']} strategy={jg.short(spec['strategy'], 150)} outcomes={spec['outcomes']}"
        a = self._script(spec, 'sync', outcomes, rkind, spec['strategy'])
        b = self._script(spec, 'async', outcomes, rkind, spec['strategy'])
        discs = self._compare_clients('client-script', a, b, where)
        return Outcome(discs, len(a['sent']) >= 2 or spec['tracers'] >= 2,
                       ['client-script', f"request/{rkind}", f"codec/{spec.get('codec', 'default')}", 'strict/on' if spec.get('strict', True) else 'strict/off'], evaluations=2)

    def _run_client_retry(self, spec: Any) -> Outcome:
        rkind = spec['request']
        where = f"request={rkind} placement={spec['placement']} strategy={jg.short(spec['strategy'], 200)} outcomes={jg.short(spec['outcomes'], 200)}"
        strategy = spec['strategy'] if spec['placement'] != 'none' else None
        s = {**spec, 'tracers': 1, 'ctx': 'default'}
        a = self._script(s, 'sync', spec['outcomes'], rkind, strategy, spec['placement'])
        b = self._script(s, 'async', spec['outcomes'], rkind, strategy, spec['placement'])
        discs = self._compare_clients('client-retry', a, b, where)
        return Outcome(discs, len(a['sent']) >= 2, ['client-retry', f"placement/{spec['placement']}", f"codec/{spec.get('codec', 'default')}"], evaluations=2)

    def _run_client_notation(self, spec: Any) -> Outcome:
        runner = c07.CHECK
        notation = spec['notation'] if runner._expressible(spec['notation'], spec['plan']) else 'batch-add'
        obs = []
        for ckind, dkind in (('sync', 'sync'), ('async', 'async')):
            r = runner._run_notation({**spec, 'client': ckind, 'dispatcher': dkind}, notation)
            obs.append({
                'sent': [[json.loads(t), n] for t, n in r['sent']],
                'outcomes': [[k, summarise_exc(v) if k == 'exc' else summarise_value(v)] for k, v in r['outcomes']],
                'log': [{'method': e['method'], 'args': e['args']} for e in r['log']],
            })
        where = f"notation={notation} idgen={spec['id_gen']} plan={jg.short(spec['plan'], 300)}"
        discs = []
        for key in ('sent', 'outcomes', 'log'):
            # the async run's coroutine methods really suspend once (see C07), so concurrent batch elements may record their
            # executions in another order: executions are compared as multisets, everything else as sequences
            same = sh._multiset_eq(obs[0][key], obs[1][key]) if key == 'log' else jg.jeq(obs[0][key], obs[1][key])
            if not same:
                discs.append(Disc(f"C11/client-notation/{key}", f"sync {jg.short(obs[0][key], 350)} vs async {jg.short(obs[1][key], 350)} | {where}"))
                break
        nontrivial = len(spec['plan']) >= 2 or any(k == 'exc' for k, _ in obs[0]['outcomes'])
        return Outcome(discs, nontrivial, ['client-notation', f"notation/{notation}"] + (['client-notation/empty-batch'] if not spec['plan'] else []), evaluations=2)


CHECK = C11()

MANIFEST = dict(
    technique="differential property-based testing (Hypothesis): every generated server / client case is executed on the sync and on the async half and the observations are compared",
    level_text=(
        "The generators of C01-C03, C12 (server) and C07, C09, C19 (client) are reused; each case is run on both halves (three runs on the "
        "server side: sync, async with coroutines, async with plain functions) and the response documents, codes, execution and event logs, "
        "wire documents, results, exceptions, tracer events and sleeps are compared for equality. No model is involved, so the check is "
        "only sensitive to one-sided changes - two-sided defects are the business of the other checks."
    ),
    level_note="compares the implementation with itself across halves; suspension-free methods; uuid id generator excluded (not reproducible)",
)
