"""
C17 - documented parameters are the accepted parameters: the names the generated OpenAPI / OpenRPC documents list, and
which they mark required, are exactly the names the dispatcher binds and exactly those without default; context and
excluded parameters appear in neither; a params object within the published names/required is never refused by binding,
one that omits a required or adds an unlisted name always is.
"""

import itertools
import json
from typing import Any, Dict, Iterator, List, Optional, Set, Tuple

from hypothesis import strategies as st

import pjrpc.server
from pjrpc.server import validators
from pjrpc.server.specs import openapi, openrpc
from pjrpc.server.specs.extractors.pydantic import PydanticSchemaExtractor

from pbt import jsongen as jg, methods as hm
from pbt.runner import Check, Disc, Outcome

_CACHE: Dict[str, Any] = {}


def exclude_pred(name: str, annotation: Any, default: Any) -> bool:
    return name.startswith('dep_')


def exclude_unannotated(name: str, annotation: Any, default: Any) -> bool:
    """a predicate keyed on the annotation the library hands it: parameters WITHOUT annotation are injected dependencies"""
    import inspect
    return annotation is inspect.Parameter.empty


PREDICATES = {True: exclude_pred, 'unannotated': exclude_unannotated}


def build(spec: Dict[str, Any]):
    """-> (dispatcher, registry) for one generated method 'meth' (cached by spec: pjrpc caches functions forever anyway)"""
    key = json.dumps(spec['method'], sort_keys=True)
    if key in _CACHE:
        return _CACHE[key]
    m = spec['method']
    params = m['params']
    view = m['flavour'] == 'view'
    parts: List[str] = ['self'] if view else []
    ns_defaults: Dict[str, Any] = {}
    star = False
    if m.get('posonly'):
        # a leading positional-only parameter with a default: it can not be passed by name, so it is no JSON-RPC parameter of
        # a params OBJECT and must not be documented
        parts += ['po_first=0', '/'] if not (params and params[0].get('ctx') and params[0]['kind'] == 'PK') else []
    for p in params:
        if p['kind'] == 'KO' and not star:
            parts.append('*')
            star = True
        src = p['name']
        if p.get('ann'):
            src += ': ' + p['ann']
        elif m['excluded'] == 'unannotated' and not p.get('excluded') and not p.get('ctx'):
            src += ': int'        # in this mode every client parameter is annotated, only the injected one is not
        if 'default' in p:
            if p['default'].get('sentinel'):
                # a default that is not JSON-serialisable: an application sentinel, or the library's own UNSET ("argument not given")
                from pjrpc.common import UNSET
                ns_defaults[f"_SENTINEL_{p['name']}"] = UNSET if p['default']['sentinel'] == 'UNSET' else object()
                src += f" = _SENTINEL_{p['name']}"
            else:
                src += ' = ' + repr(p['default']['value'])
        parts.append(src)
    body = "return 1"
    validator = validators.BaseValidator(exclude_param=PREDICATES[m['excluded']]) if m['excluded'] else None
    ns: Dict[str, Any] = {'ViewMixin': pjrpc.server.ViewMixin, 'Optional': Optional, 'List': List, **ns_defaults}
    reg = pjrpc.server.MethodRegistry()
    ctx_name = next((p['name'] for p in params if p.get('ctx')), None)
    if view and m.get('static_inherited'):
        # the public method is a @staticmethod the registered view INHERITS from a base view
        sparts = [x for x in parts if x != 'self']
        src = (f"class BaseView(ViewMixin):\n    def __init__(self, context=None):\n        super().__init__()\n    @staticmethod\n    def meth({', '.join(sparts)}):\n        {body}\n"
               f"class View(BaseView):\n    pass\n")
        exec(src, ns)
        cls = ns['View']
        reg.view(cls, context='context' if m['view_ctx'] else None)
    elif view:
        src = f"class View(ViewMixin):\n    def __init__(self, context=None):\n        super().__init__()\n    def meth({', '.join(parts)}):\n        {body}\n"
        exec(src, ns)
        cls = ns['View']
        if validator:
            cls.meth = validator.validate(cls.meth)
        reg.view(cls, context='context' if m['view_ctx'] else None)
    elif m['flavour'] == 'bound':
        # a bound method of an ordinary handler object (not a view): the function is decorated in the class body, the BOUND method is
        # registered - its instance parameter is no JSON-RPC parameter
        ns['_validate'] = (validator or validators.BaseValidator()).validate
        exec(f"class Service:\n    @_validate\n    def meth({', '.join(['self'] + parts)}):\n        {body}\n", ns)
        reg.add(ns['Service']().meth, 'meth', context=ctx_name)
    else:
        exec(f"def meth({', '.join(parts)}):\n    {body}\n", ns)
        fn = validator.validate(ns['meth']) if validator else ns['meth']
        reg.add(fn, 'meth', context=ctx_name)
        if ctx_name and m.get('twice'):
            # the same function exposed a second time WITHOUT a context designation: there 'ctx' is an ordinary required parameter
            reg.add(fn, 'meth_plain')
    d = pjrpc.server.Dispatcher()
    d.add_methods(reg)
    _CACHE[key] = (d, reg)
    return _CACHE[key]


def signatures(n: int) -> Iterator[List[Dict[str, Any]]]:
    for kinds in itertools.product(['PK', 'KO'], repeat=n):
        if list(kinds) != sorted(kinds, key=lambda k: 0 if k == 'PK' else 1):
            continue
        for defaults in itertools.product([False, True], repeat=n):
            params = []
            for i, (k, d) in enumerate(zip(kinds, defaults)):
                p: Dict[str, Any] = {'name': f'p{i}', 'kind': k}
                if d:
                    p['default'] = {'value': i} if (i + n) % 2 else {'sentinel': 'UNSET' if (i + n) % 4 == 2 else True}
                params.append(p)
            if hm.valid_order([{**p, 'default': {'value': 0}} if 'default' in p else p for p in params]):
                yield params


def variants(params: List[Dict[str, Any]]) -> Iterator[Dict[str, Any]]:
    n_pk = len([p for p in params if p['kind'] == 'PK'])
    for excluded in (False, True, 'unannotated'):
        ps = list(params) + ([{'name': 'dep_inj', 'kind': 'KO', 'default': {'value': None}, 'excluded': True}] if excluded else [])
        yield {'params': ps, 'flavour': 'func', 'excluded': excluded, 'view_ctx': False}
        yield {'params': ps, 'flavour': 'bound', 'excluded': excluded, 'view_ctx': False}
        if not excluded and all('default' in p for p in ps if p['kind'] == 'PK'):
            # python requires defaults after a defaulted positional-only parameter
            yield {'params': ps, 'flavour': 'func', 'excluded': excluded, 'view_ctx': False, 'posonly': True}
        for pos in range(0, n_pk + 1):
            cand = ps[:pos] + [{'name': 'ctx', 'kind': 'PK', 'ctx': True}] + ps[pos:]
            if hm.valid_order([{**p, 'default': {'value': 0}} if 'default' in p else p for p in cand]):
                yield {'params': cand, 'flavour': 'func', 'excluded': excluded, 'view_ctx': False}
                yield {'params': cand, 'flavour': 'bound', 'excluded': excluded, 'view_ctx': False}
                if not excluded:
                    yield {'params': cand, 'flavour': 'func', 'excluded': excluded, 'view_ctx': False, 'twice': 'ctx-first'}
                    yield {'params': cand, 'flavour': 'func', 'excluded': excluded, 'view_ctx': False, 'twice': 'plain-first'}
        n_before_ko = len([p for p in ps if p['kind'] == 'PK'])
        yield {'params': ps[:n_before_ko] + [{'name': 'ctx', 'kind': 'KO', 'ctx': True}] + ps[n_before_ko:], 'flavour': 'func', 'excluded': excluded, 'view_ctx': False}
        if ps and ps[0]['name'] == 'p0' and not excluded:
            # client parameters named like attributes of pydantic's BaseModel (the extractor builds a model with such fields)
            # ... or like the conventional names of an instance / a class (a plain function is free to call a parameter `cls` or `self`)
            for attr in ('json', 'copy', 'dict', 'schema', 'validate', 'fields', 'construct', 'cls', 'self', 'context'):
                yield {'params': [{**ps[0], 'name': attr}] + ps[1:], 'flavour': 'func', 'excluded': excluded, 'view_ctx': False}
        if ps and ps[0]['name'] == 'p0':
            # a client parameter whose name is contained in the context parameter's name ('t' in 'ctx')
            rn = [{**ps[0], 'name': 't'}] + ps[1:]
            yield {'params': rn[:n_before_ko] + [{'name': 'ctx', 'kind': 'KO', 'ctx': True}] + rn[n_before_ko:], 'flavour': 'func', 'excluded': excluded, 'view_ctx': False}
        yield {'params': ps, 'flavour': 'view', 'excluded': excluded, 'view_ctx': True}
        yield {'params': ps, 'flavour': 'view', 'excluded': excluded, 'view_ctx': False}
        if not excluded:
            yield {'params': ps, 'flavour': 'view', 'excluded': excluded, 'view_ctx': False, 'static_inherited': True}


def find_ref(doc: Dict[str, Any], node: Any) -> Any:
    while isinstance(node, dict) and '$ref' in node:
        path = node['$ref'].lstrip('#/').split('/')
        cur: Any = doc
        for part in path:
            cur = cur[part]
        node = cur
    return node


class C17(Check):
    pid = 'C17'
    level = 'exploration'
    quick_examples = 150
    thorough_examples = 1500
    chunk = 150
    rule = (
        "[drawn in addition since rounds 13-15: parameters named cls / self / context; bound methods of handler objects] "
        "cases: (a) enumerated: every signature of <= 2 (quick) / <= 3 (thorough) parameters over positional-or-keyword / keyword-only x with / "
        "without defaults (JSON values, non-JSON-serialisable sentinel objects and the library's own UNSET), x context parameter designations (none, by name at each positional position, keyword-only, view constructor; also next to a client parameter whose name is contained in the context name) x "
        "exclusion predicate off / by name prefix / by missing annotation (an extra defaulted 'dep_' parameter, excluded in the extractor and in the validator) x function / view (own methods; a static method inherited from a base view) "
        "method, x the same function registered a second time without context designation (probed in both orders), x a leading positional-only parameter with a default (no parameter of a params object: never documented, never settable by name); (b) Hypothesis: signatures of up to 4 parameters with annotations. For each: the OpenAPI request schema and the OpenRPC params "
        "list are generated with PydanticSchemaExtractor, and ALL params objects over subsets of (documented names + one undocumented name + "
        "the context name + the excluded name), with values 1 and null, are dispatched. Oracle: documented names == the signature's client parameters, documented "
        "required == those without default, context / excluded names in neither document, both documents agree; a params object whose keys "
        "contain the required names and are within the documented names is never answered -32602, any other always is. evaluations = "
        "dispatched params objects. non-trivial = the signature has a default or a keyword-only or an excluded / context parameter; distinct = distinct spec."
    )
    assumptions = [
        "the PydanticSchemaExtractor is the extractor that derives parameters from the signature (the base extractor documents nothing by "
        "design, the docstring extractor documents the docstring)",
        "the exclusion predicate is configured identically on the extractor and on the method's validator, and excluded parameters have defaults",
        "view methods do not name a parameter after the view's context",
    ]
    trusted_base = ['python call binding (parameter lists are read off the generated signature spec)']
    required_classes = ['flavour/func', 'flavour/view', 'flavour/bound', 'ctx/name', 'ctx/view', 'excluded/yes', 'kind/KO', 'has-default', 'n=0', 'registered-twice', 'kind/positional-only-default']

    def _enum(self, maxn: int, shard: int = 0, nshards: int = 1):
        k = 0
        for n in range(0, maxn + 1):
            for params in signatures(n):
                for v in variants(params):
                    k += 1
                    if k % nshards == shard:
                        yield {'method': v}

    def enumerate(self, tier: str):
        return self._enum(2) if tier == 'quick' else None

    def enum_shards(self, tier: str) -> int:
        return 16

    def enumerate_shard(self, tier: str, shard: int, nshards: int):
        return self._enum(3, shard, nshards)

    def exhaustive_note(self, tier: str) -> str:
        n = 2 if tier == 'quick' else 3
        return f"all signatures of <= {n} parameters x context / exclusion / flavour variants, each with all params-object subsets; 4-parameter annotated signatures sampled"

    def strategy(self, tier: str):
        s_ann = st.sampled_from([None, None, 'int', 'str', 'Optional[int]', 'List[int]', 'float', 'bool'])
        s_raw = st.lists(st.tuples(st.sampled_from(['PK', 'PK', 'KO']), st.booleans(), s_ann), max_size=4)

        @st.composite
        def case(draw):
            raw = sorted(draw(s_raw), key=lambda t: 0 if t[0] == 'PK' else 1)
            params = []
            seen = False
            for i, (k, d, ann) in enumerate(raw):
                p: Dict[str, Any] = {'name': f'p{i}', 'kind': k}
                if ann:
                    p['ann'] = ann
                if k == 'PK':
                    seen = seen or d
                    d = seen
                if d:
                    p['default'] = {'value': None if ann and 'Optional' in ann else {'int': 1, 'str': 's', 'float': 1.5, 'bool': True, 'List[int]': None}.get(ann or '', 0)}
                    if ann == 'List[int]':
                        p['ann'] = 'Optional[List[int]]'
                params.append(p)
            vs = list(variants(params))
            return {'method': vs[draw(st.integers(0, 50)) % len(vs)]}
        return case()

    def run_case(self, spec: Any) -> Outcome:
        m = spec['method']
        params = m['params']
        d, reg = build(spec)
        exposures = ['meth']
        if m.get('twice') and any(p.get('ctx') for p in params):
            exposures = ['meth', 'meth_plain'] if m['twice'] == 'ctx-first' else ['meth_plain', 'meth']
        out: Optional[Outcome] = None
        for exposed in exposures:
            o = self._judge_exposure(spec, d, reg, exposed)
            if out is None:
                out = o
            else:
                out = Outcome(out.discs + o.discs, out.nontrivial or o.nontrivial, sorted(set(out.classes + o.classes + ['registered-twice'])), out.evaluations + o.evaluations)
        return out

    def _judge_exposure(self, spec: Any, d: Any, reg: Any, exposed: str) -> Outcome:
        m = spec['method']
        params = m['params']
        plain = exposed == 'meth_plain'
        if plain:   # no context designation: every parameter (incl. the one called ctx) is a client parameter
            params = [{k: v for k, v in p.items() if k != 'ctx'} for p in params]
        client_params = [p for p in params if not p.get('ctx') and not p.get('excluded')]
        want_names = [p['name'] for p in client_params]
        want_required = [p['name'] for p in client_params if 'default' not in p]
        sig = ', '.join(p['name'] + ('=..' if 'default' in p else '') + ('[ctx]' if p.get('ctx') else '') + ('[excl]' if p.get('excluded') else '') + ('/KO' if p['kind'] == 'KO' else '') for p in params)
        where = f"def meth({sig}) exposed as {exposed!r} (registered twice: {m.get('twice')}) flavour={m['flavour']} view_ctx={m['view_ctx']}"
        discs: List[Disc] = []
        extractor = PydanticSchemaExtractor(exclude_param=PREDICATES[m['excluded']]) if m['excluded'] else PydanticSchemaExtractor()
        documented: Dict[str, Tuple[List[str], List[str]]] = {}
        try:
            oa = openapi.OpenAPI(info=openapi.Info(title='t', version='1'), schema_extractor=extractor).schema(path='/api', methods_map={'': reg.values()})
            item = oa['paths'][f'/api#{exposed}']['post']
            req = find_ref(oa, item['requestBody']['content']['application/json']['schema'])
            ps = find_ref(oa, req['properties']['params'])
            documented['openapi'] = (list(ps.get('properties', {})), list(ps.get('required', [])))
        except Exception as e:
            discs.append(Disc(f"C17/openapi/generation-failed/{type(e).__name__}", f"{e!r} | {where}"))
        try:
            orp = openrpc.OpenRPC(info=openrpc.Info(title='t', version='1'), schema_extractor=extractor).schema(path='/api', methods_map={'': reg.values()})
            meth = next(x for x in orp['methods'] if x['name'] == exposed)
            documented['openrpc'] = ([p['name'] for p in meth['params']], [p['name'] for p in meth['params'] if p.get('required')])
        except Exception as e:
            discs.append(Disc(f"C17/openrpc/generation-failed/{type(e).__name__}", f"{e!r} | {where}"))
        for kind, (names, required) in documented.items():
            if set(names) != set(want_names) or len(names) != len(want_names):
                extra = sorted(set(names) - set(want_names))
                which = 'context-or-excluded-documented' if any(x == 'ctx' or x.startswith('dep_') for x in extra) else ('self-documented' if 'self' in extra else 'positional-only-documented' if 'po_first' in extra else 'names')
                discs.append(Disc(f"C17/{kind}/{which}", f"documented {names} expected {want_names} | {where}"))
            elif set(required) != set(want_required):
                discs.append(Disc(f"C17/{kind}/required", f"documented required {required} expected {want_required} | {where}"))
        if len(documented) == 2 and (set(documented['openapi'][0]) != set(documented['openrpc'][0]) or set(documented['openapi'][1]) != set(documented['openrpc'][1])):
            discs.append(Disc("C17/documents-disagree", f"openapi {documented['openapi']} openrpc {documented['openrpc']} | {where}"))

        # dispatch all params objects over subsets of (documented names + undocumented + ctx + excluded)
        pub_names, pub_required = documented.get('openapi') or documented.get('openrpc') or (want_names, want_required)
        pool = list(dict.fromkeys(list(pub_names) + want_names + ['zz'] + [p['name'] for p in m['params'] if p.get('ctx') or p.get('excluded')]
                                  + (['po_first'] if m.get('posonly') else [])))
        n_eval = 0
        for r in range(len(pool) + 1):
            for subset in itertools.combinations(pool, r):
                conforms = set(pub_required) <= set(subset) <= set(pub_names)
                for value in (1, None):       # a member whose value is null is still a supplied member
                    n_eval += 1
                    text = json.dumps({'jsonrpc': '2.0', 'id': 1, 'method': exposed, 'params': {k: value for k in subset}})
                    resp = json.loads(d.dispatch(text, object())[0])
                    refused = resp.get('error', {}).get('code') == -32602
                    if conforms and refused:
                        discs.append(Disc("C17/conforming-params-refused", f"params {sorted(subset)} (values {value!r}) satisfy the published names {pub_names} / required {pub_required} but got -32602 | {where}"))
                        break
                    if not conforms and not refused:
                        discs.append(Disc("C17/nonconforming-params-accepted", f"params {sorted(subset)} (values {value!r}) violate the published names {pub_names} / required {pub_required} but were not refused: {jg.short(resp)} | {where}"))
                        break
                if discs:
                    break
            else:
                continue
            break
        classes = [f"flavour/{m['flavour']}", f"n={len(client_params)}" if len(client_params) < 1 else 'n>=1']
        if any(p.get('ctx') for p in params):
            classes.append('ctx/name')
        if m['view_ctx']:
            classes.append('ctx/view')
        if m['excluded']:
            classes.append('excluded/yes')
        if any(p['kind'] == 'KO' for p in client_params):
            classes.append('kind/KO')
        if m.get('posonly'):
            classes.append('kind/positional-only-default')
        if any('default' in p for p in client_params):
            classes.append('has-default')
        nontrivial = any(c in classes for c in ('ctx/name', 'excluded/yes', 'kind/KO', 'has-default'))
        return Outcome(discs, nontrivial, classes, evaluations=max(n_eval, 1))


def view_method(spec: Any, disc: Disc) -> bool:
    return spec['method']['flavour'] == 'view'


C17.matchers = {'view_method': view_method}

CHECK = C17()

MANIFEST = dict(
    technique="exhaustive enumeration of signatures x parameter-object subsets plus property-based sampling (Hypothesis): generated documents vs dispatch outcome (differential between what is published and what is accepted)",
    level_text=(
        "Every signature of up to 2 (quick) / 3 (thorough) parameters over the positional-or-keyword / keyword-only kinds, defaults, context "
        "designations, exclusion predicate and function / view flavours is documented with the pydantic extractor in OpenAPI and OpenRPC form; "
        "the published names / required list are compared with the signature and every params object over the subsets of published, "
        "undocumented, context and excluded names is dispatched to confirm 'accepted iff it satisfies the published schema'."
    ),
    level_note="trusts the harness' reading of the generated signature spec; only the pydantic extractor derives parameters from signatures",
)
