"""
C16 - generated OpenAPI / OpenRPC documents are JSON-encodable, validate against the official meta-schemas, contain no
dangling $ref, describe every registered method exactly once under its exposed name; generation is pure (repeatable, does
not modify annotations / user objects) and what is documented for one method never shows up in another method's entry.
"""

import copy
import dataclasses as dc
import enum
import json
import os
import re
from typing import Any, Dict, List, Optional, Set, Tuple

import jsonschema
import pydantic
import yaml
from hypothesis import strategies as st

import pjrpc.server
from pjrpc.common import UNSET, UnsetType
from pjrpc.server import specs
from pjrpc.server.specs import extractors, openapi, openrpc
from pjrpc.server.specs.extractors.docstring import DocstringSchemaExtractor
from pjrpc.server.specs.extractors.pydantic import PydanticSchemaExtractor

from pbt import errors as he, jsongen as jg
from pbt.runner import REPO, Check, Disc, Outcome


class ModelA(pydantic.BaseModel):
    x: int
    y: str = 'd'


class ModelB(pydantic.BaseModel):
    a: ModelA
    tags: List[str] = []


class ModelC(pydantic.BaseModel):
    flag: bool = False
    inner: Optional[ModelA] = None


ANN: Dict[str, Any] = {
    'int': int, 'str': str, 'float': float, 'bool': bool, 'opt_int': Optional[int], 'list_int': List[int], 'dict': Dict[str, int],
    'ModelA': ModelA, 'ModelB': ModelB, 'ModelC': ModelC, 'opt_ModelA': Optional[ModelA], 'list_ModelB': List[ModelB], 'none': None,
}
ANN_DOC = {'int': 'integer', 'str': 'string', 'float': 'number', 'bool': 'boolean', 'opt_int': 'integer', 'list_int': 'array', 'dict': 'object',
           'ModelA': 'object', 'ModelB': 'object', 'ModelC': 'object', 'opt_ModelA': 'object', 'list_ModelB': 'array', 'none': 'null'}
DEFAULTS = {'int': 1, 'str': 's', 'float': 1.5, 'bool': True, 'opt_int': None, 'list_int': None, 'dict': None, 'ModelA': None, 'ModelB': None,
            'ModelC': None, 'opt_ModelA': None, 'list_ModelB': None}
ERROR_NAMES = ['MethodNotFoundError', 'InvalidParamsError', 'Custom2001', 'Custom2002', 'Custom2003', 'SrvRange']

_META: Dict[str, Any] = {}


def meta_validator(name: str):
    if name not in _META:
        d = os.path.join(REPO, 'tests', 'server', 'resources')
        path = os.path.join(d, {'oas31': 'oas-3.1-meta.yaml', 'oas30': 'oas-3.0-meta.yaml', 'openrpc': 'openrpc-1.3.2.json'}[name])
        with open(path) as f:
            schema = yaml.safe_load(f) if path.endswith('.yaml') else json.load(f)
        cls = jsonschema.validators.validator_for(schema)
        _META[name] = cls(schema)
    return _META[name]


def snapshot(v: Any, depth: int = 0) -> Any:
    """structural snapshot of user objects: classes / functions by identity, containers and dataclasses by content"""
    if depth > 12:
        return '<deep>'
    if v is UNSET or isinstance(v, UnsetType):
        return 'UNSET'
    if isinstance(v, (str, int, float, bool)) or v is None:
        return v
    if isinstance(v, enum.Enum):
        return ['enum', v.value]
    if isinstance(v, type) or callable(v) and not dc.is_dataclass(v):
        return ['ref', id(v)]
    if isinstance(v, dict):
        return {'dict': [[snapshot(k, depth + 1), snapshot(x, depth + 1)] for k, x in v.items()]}
    if isinstance(v, (list, tuple)):
        return {'list': [snapshot(x, depth + 1) for x in v]}
    if dc.is_dataclass(v):
        return {'dc': type(v).__name__, 'fields': [[f.name, snapshot(getattr(v, f.name), depth + 1)] for f in dc.fields(v)]}
    if hasattr(v, '__dict__'):
        return {'obj': type(v).__name__, 'attrs': [[k, snapshot(x, depth + 1)] for k, x in sorted(vars(v).items())]}
    return ['other', repr(v)]


def refs_of(node: Any, out: Optional[List[str]] = None) -> List[str]:
    out = [] if out is None else out
    if isinstance(node, dict):
        for k, v in node.items():
            if k == '$ref' and isinstance(v, str):
                out.append(v)
            else:
                refs_of(v, out)
    elif isinstance(node, list):
        for v in node:
            refs_of(v, out)
    return out


def resolve(doc: Any, ref: str) -> Tuple[bool, Any]:
    if not ref.startswith('#/'):
        return False, None
    cur = doc
    for part in ref[2:].split('/'):
        part = part.replace('~1', '/').replace('~0', '~')
        if isinstance(cur, dict) and part in cur:
            cur = cur[part]
        else:
            return False, None
    return True, cur


OTHER_ENDPOINT_ONLY = 'only.on.the.other.endpoint'


def _other_endpoint_method(zz_only_on_the_other_endpoint: int, flag: bool = False) -> int:
    return 0


def endpoint_path(path: str, prefix: str) -> str:
    """the harness' own notion of 'endpoint path': base path, joined with the endpoint prefix by exactly one slash"""
    return path if not prefix else path.rstrip('/') + '/' + prefix.lstrip('/')


def null_text_members(v: Any, path: str = '') -> List[str]:
    """paths of summary / description / title members whose value is null"""
    out: List[str] = []
    if isinstance(v, dict):
        for k, x in v.items():
            if k in ('summary', 'description', 'title') and x is None and not path.endswith('/properties') and not path.endswith('/example') and '/examples' not in path:
                out.append(f'{path}/{k}')
            out += null_text_members(x, f'{path}/{k}')
    elif isinstance(v, list):
        for i, x in enumerate(v):
            out += null_text_members(x, f'{path}/{i}')
    return out


def closure(doc: Any, entry: Any) -> Dict[str, Any]:
    """the components reachable from an entry through $ref"""
    seen: Dict[str, Any] = {}
    todo = refs_of(entry)
    while todo:
        r = todo.pop()
        if r in seen:
            continue
        ok, target = resolve(doc, r)
        seen[r] = target if ok else '<dangling>'
        if ok:
            todo += refs_of(target)
    return seen


class C16(Check):
    pid = 'C16'
    level = 'exploration'
    quick_examples = 300
    thorough_examples = 3000
    chunk = 150
    rule = (
        "[round 16: OpenRPC documents of applications with a second endpoint re-using a method name] [drawn in addition since rounds 13-15: component prefixes that are leading substrings of component names; the document must declare the requested OpenAPI version; snake / camel and dotted twin names with different signatures] "
        "cases: method sets of 1..4 methods (functions and class based view methods, context parameters, custom exposed names, the same function exposed under a second name) with 0..3 "
        "parameters annotated over int / str / float / bool / Optional / List / Dict / three pydantic model classes (nested, optional, list of), "
        "return annotations incl. None and missing, docstrings (none, summary only, full reST with :param: / :returns: / :raises: of registered "
        "error names / deprecation) x annotations (errors incl. ONE list object shared by several methods, tags, examples, summary, "
        "description, deprecated, servers, security, external docs, explicit params / result schemas, per-method component_name_prefix) x "
        "extractor stacks {base, pydantic, docstring, [pydantic, docstring], [docstring, pydantic]} x document kind {OpenAPI 3.1.0, OpenAPI "
        "3.0.3, OpenRPC 1.3.2} x spec-level options (servers, tags, security schemes, external docs, error -> HTTP status map) x 1..2 endpoint prefixes x 1..3 repeated "
        "generations. Oracle: (1) json.dumps(doc, cls=specs.JSONEncoder) succeeds; (2) the document validates against the meta-schema shipped "
        "in tests/server/resources (jsonschema 3.2, as the repository's tests do); (3) every $ref resolves inside the document; (4) every method "
        "appears exactly once under its exposed name (and endpoint path), nothing else; (5) purity: structural snapshots of every method's "
        "__pjrpc_meta__, of the user's lists / dataclasses and of the Specification object are unchanged, the k-th generation equals the "
        "first; (6) isolation: a method's entry (+ the components it references) generated alone equals its entry generated with the others. "
        "non-trivial = >= 2 methods with >= 1 annotation each, or a shared object, or >= 2 generations; distinct = distinct spec."
    )
    assumptions = [
        "model classes have distinct names (component_name_prefix is exercised separately per method)",
        "docstring type names are JSON-Schema type names; docstring :raises: names are registered error class names",
        "meta-schema validation is the jsonschema-3.2 validation the repository's own tests perform (2020-12-only keywords are ignored by it)",
        "KF-C16-1 (OpenAPI 3.0.x documents carrying JSON schemas use 2020-12 constructs) is muted by predicate",
    ]
    trusted_base = ['jsonschema 3.2 + the meta-schemas in tests/server/resources', 'python json']
    required_classes = ['kind/openapi-3.1.0', 'kind/openapi-3.0.3', 'kind/openrpc', 'extractors/base', 'extractors/pydantic', 'extractors/docstring',
                        'extractors/pydantic+docstring', 'extractors/docstring+pydantic', 'shared-errors-list', 'generations>=2', 'methods>=2', 'late-error-class-named-in-docstring',
                        'annot/prefix', 'annot/examples', 'annot/errors', 'flavour/view', 'endpoints/2', 'doc/full', 'doc/bare-types', 'opts/status-map', 'alias']

    # ---- generation -------------------------------------------------------------------------------------------

    def strategy(self, tier: str):
        s_ann = st.sampled_from([a for a in ANN if a != 'none'] + ['int', 'str', 'ModelA'])
        s_param = st.tuples(s_ann, st.booleans())
        s_ret = st.sampled_from(['missing', 'none', 'int', 'opt_int', 'ModelA', 'list_ModelB', 'str', 'ModelC'])
        s_doc = st.sampled_from(['none', 'none', 'summary', 'full', 'full', 'raises', 'deprecated', 'bare-types', 'fields-only'])
        s_bool = st.booleans()
        s_rare = st.integers(0, 3).map(lambda n: n == 0)
        s_annot = st.fixed_dictionaries({
            'errors': st.sampled_from(['none', 'none', 'own', 'shared', 'shared']), 'error_names': st.lists(st.sampled_from(ERROR_NAMES), min_size=1, max_size=3, unique=True),
            'tags': st.lists(st.sampled_from(['t1', 't2', 'admin']), max_size=2, unique=True), 'examples': st.integers(0, 2), 'summary': s_rare, 'description': s_rare,
            'deprecated': st.sampled_from([None, None, True, False]), 'servers': s_rare, 'security': s_rare, 'external_docs': s_rare,
            'params_schema': s_rare, 'result_schema': s_rare, 'prefix': st.sampled_from([None, None, None, None, None, 'P1', 'Pfx2', 'Json', 'J', 'M', 'Model', 'Custom']),   # some are leading substrings of component names
        })
        s_method = st.fixed_dictionaries({
            'params': st.lists(s_param, max_size=3), 'ret': s_ret, 'doc': s_doc, 'ctx': s_rare, 'flavour': st.sampled_from(['func', 'func', 'view']),
            'custom_name': s_rare, 'annotated': st.sampled_from([True, True, False]), 'annot': s_annot,
            'alias': st.integers(0, 5).map(lambda n: n == 0),     # the same function exposed a second time under another name
        })
        return st.fixed_dictionaries({
            'kind': st.sampled_from(['openapi-3.1.0', 'openapi-3.1.0', 'openapi-3.0.3', 'openrpc', 'openrpc']),
            'extractors': st.sampled_from([['base'], ['pydantic'], ['pydantic'], ['docstring'], ['pydantic', 'docstring'], ['docstring', 'pydantic']]),
            'methods': st.lists(s_method, min_size=1, max_size=4), 'endpoints': st.sampled_from([1, 1, 2]), 'generations': st.sampled_from([1, 2, 2, 3]),
            'spec_opts': st.fixed_dictionaries({'servers': s_bool, 'tags': s_bool, 'security': s_bool, 'external_docs': s_bool,
                                                'status_map': st.sampled_from([None, None, {'2001': 404, '-32601': 404}, {'2002': 409, '-32602': 422, '2001': 404}])}),
            'path': st.sampled_from(['/api', '/', '/api/v1', '/api', '/', '/api/v1', '/rpc/', '']),
            'late_error': st.integers(0, 3).map(lambda n: n == 0),
            'naming': st.sampled_from(['plain', 'plain', 'plain', 'case-twins', 'dotted-twins', 'rpc-prefix']),
        })

    def corpus(self):
        annot = {'errors': 'shared', 'error_names': ['Custom2001'], 'tags': ['t1'], 'examples': 1, 'summary': False, 'description': False, 'deprecated': None,
                 'servers': False, 'security': False, 'external_docs': False, 'params_schema': False, 'result_schema': False, 'prefix': None}
        m = lambda **kw: {'params': [['int', False], ['ModelA', True]], 'ret': 'ModelA', 'doc': 'raises', 'ctx': False, 'flavour': 'func', 'custom_name': False,  # noqa: E731
                          'annotated': True, 'annot': dict(annot), **kw}
        opts = {'servers': True, 'tags': True, 'security': True, 'external_docs': True}
        out = []
        for kind, ex in (('openapi-3.1.0', ['pydantic', 'docstring']), ('openrpc', ['pydantic']), ('openrpc', ['base']), ('openapi-3.1.0', ['base'])):
            out.append({'kind': kind, 'extractors': ex, 'methods': [m(), m(doc='full'), m(annot={**annot, 'prefix': 'P1', 'errors': 'own'}), m(flavour='view')],
                        'endpoints': 2, 'generations': 3, 'spec_opts': opts, 'path': '/api'})
        out.append({'kind': 'openapi-3.1.0', 'extractors': ['pydantic'], 'endpoints': 1, 'generations': 2, 'path': '/api',
                    'spec_opts': {**opts, 'status_map': {'2001': 404, '-32601': 404, '2002': 409}},
                    'methods': [m(annot={**annot, 'errors': 'own', 'error_names': ['Custom2001', 'Custom2002', 'MethodNotFoundError'], 'prefix': 'P1'}),
                                m(doc='none', annot={**annot, 'errors': 'own', 'error_names': ['Custom2002'], 'prefix': 'Pfx2'}),
                                m(doc='none', annot={**annot, 'errors': 'none'}, alias=True)]})
        # explicit result schemas / docstring extractor with DIFFERENT errors per method (error schemas are built from a shared template)
        for kind in ('openrpc', 'openapi-3.1.0'):
            out.append({'kind': kind, 'extractors': ['pydantic'], 'endpoints': 1, 'generations': 1, 'path': '/api', 'spec_opts': opts, 'naming': 'rpc-prefix',
                        'methods': [m(doc='none', annotated=False), m(doc='summary', annotated=False)]})
        # method names that are distinct but close: snake_case / camelCase twins, dotted names sharing their last segment - each pair
        # with DIFFERENT signatures (what is documented for one must not show up in the other)
        for naming in ('case-twins', 'dotted-twins'):
            for kind in ('openapi-3.1.0', 'openrpc'):
                out.append({'kind': kind, 'extractors': ['pydantic'], 'endpoints': 1, 'generations': 1, 'path': '/api', 'spec_opts': opts, 'naming': naming,
                            'methods': [m(doc='none', annotated=False, params=[['int', False]], ret='int'),
                                        m(doc='none', annotated=False, params=[['str', False], ['ModelA', True]], ret='ModelA'),
                                        m(doc='none', annotated=False, params=[], ret='missing')]})
        for kind, ex in (('openapi-3.1.0', ['docstring']), ('openrpc', ['docstring']), ('openapi-3.1.0', ['pydantic', 'docstring'])):
            out.append({'kind': kind, 'extractors': ex, 'endpoints': 1, 'generations': 1, 'path': '/api', 'spec_opts': opts, 'late_error': True,
                        'methods': [m(doc='raises', annotated=False), m(doc='full', annot={**annot, 'errors': 'none'})]})
        for ex in (['docstring'], ['base'], ['docstring', 'pydantic']):
            out.append({'kind': 'openapi-3.1.0', 'extractors': ex, 'endpoints': 1, 'generations': 2, 'path': '/api', 'spec_opts': opts,
                        'methods': [m(doc='none', annot={**annot, 'errors': 'own', 'error_names': ['Custom2001'], 'result_schema': True, 'params_schema': True}),
                                    m(doc='none', annot={**annot, 'errors': 'own', 'error_names': ['Custom2002', 'SrvRange'], 'result_schema': True}),
                                    m(doc='full', annot={**annot, 'errors': 'own', 'error_names': ['InvalidParamsError'], 'params_schema': True})]})
        return out

    # ---- building --------------------------------------------------------------------------------------------------

    def _docstring(self, ms: Dict[str, Any], pnames: List[Tuple[str, str]]) -> Optional[str]:
        kind = ms['doc']
        if kind == 'none':
            return None
        if kind == 'fields-only':      # a docstring without a summary line: field sections only
            return '\n    '.join([f':param {ANN_DOC[ann]} {name}: the {name} argument' for name, ann in pnames] + [':returns: the result'])
        lines = ['Does something useful.']
        if kind == 'summary':
            return lines[0]
        lines += ['', 'A longer description of the method', 'spanning two lines.', '']
        if kind == 'bare-types':       # types without descriptions
            for name, ann in pnames:
                lines.append(f':param {ANN_DOC[ann]} {name}:')
            lines.append(f":rtype: {ANN_DOC.get(ms['ret'], 'object')}")
        if kind in ('full',):
            for name, ann in pnames:
                lines.append(f':param {ANN_DOC[ann]} {name}: the {name} argument')
            lines.append(':returns: the result')
            lines.append(f":rtype: {ANN_DOC.get(ms['ret'], 'object')}")
        if kind in ('full', 'raises'):
            lines.append(':raises Custom2002: when it goes wrong')
            lines.append(':raises InvalidParamsError: bad params')
            lines.append(':raises NotAnErrorName: ignored')
            if ms.get('_late_error'):
                lines.append(':raises LateError: an application error class defined after the specification object was created')
        if kind == 'deprecated':
            lines += ['.. deprecated:: 1.2', '   use something else']
        return '\n    '.join(lines)

    def _build_methods(self, spec: Dict[str, Any]):
        is_rpc = spec['kind'] == 'openrpc'
        mod = openrpc if is_rpc else openapi
        shared_errors: List[Any] = []
        registries = [pjrpc.server.MethodRegistry() for _ in range(spec['endpoints'])]
        built = []
        user_objects: List[Any] = [shared_errors]
        for i, ms in enumerate(spec['methods']):
            pnames = [(f'p{j}', ann) for j, (ann, _) in enumerate(ms['params'])]
            parts, seen_default = [], False
            ns: Dict[str, Any] = {'ViewMixin': pjrpc.server.ViewMixin}
            view = ms['flavour'] == 'view'
            if view:
                parts.append('self')
            elif ms['ctx']:
                parts.append('ctx')
            for j, (ann, has_default) in enumerate(ms['params']):
                ns[f'T{j}'] = ANN[ann]
                seen_default = seen_default or has_default
                src = f'p{j}: T{j}'
                if seen_default:
                    ns[f'D{j}'] = DEFAULTS[ann]
                    if DEFAULTS[ann] is None and not ann.startswith('opt'):
                        ns[f'T{j}'] = Optional[ANN[ann]]
                    src += f' = D{j}'
                parts.append(src)
            ret = ''
            if ms['ret'] != 'missing':
                ns['R'] = ANN[ms['ret']]
                ret = ' -> R'
            doc = self._docstring(ms, pnames)
            pyname = f'meth{i}'
            body = f'    """{doc}\n    """\n    return None\n' if doc else '    return None\n'
            if view:
                src = f"class View{i}(ViewMixin):\n    def {pyname}({', '.join(parts)}){ret}:\n" + body.replace('    ', '        ', 1).replace('\n    ', '\n        ')
                exec(src, ns)
                fn = getattr(ns[f'View{i}'], pyname)
            else:
                exec(f"def {pyname}({', '.join(parts)}){ret}:\n{body}", ns)
                fn = ns[pyname]
            a = ms['annot']
            if ms['annotated']:
                kw: Dict[str, Any] = {}
                if a['errors'] == 'own':
                    kw['errors'] = [he.BY_NAME[n] for n in a['error_names']]
                    user_objects.append(kw['errors'])
                elif a['errors'] == 'shared':
                    if not shared_errors:
                        shared_errors.extend(he.BY_NAME[n] for n in a['error_names'])
                    kw['errors'] = shared_errors
                if a['tags']:
                    kw['tags'] = list(a['tags'])
                if a['examples']:
                    if is_rpc:
                        kw['examples'] = [openrpc.MethodExample(name=f'ex{k}', params=[openrpc.ExampleObject(value=k, name='p0')],
                                                                result=openrpc.ExampleObject(value=k + 1, name='result'), summary=f'example {k}') for k in range(a['examples'])]
                    else:
                        kw['examples'] = [openapi.MethodExample(params={'p0': k}, result=k + 1, summary=f'example {k}' if k else UNSET) for k in range(a['examples'])]
                    user_objects.append(kw['examples'])
                if a['summary']:
                    kw['summary'] = f'annotated summary {i}'
                if a['description']:
                    kw['description'] = f'annotated description {i}'
                if a['deprecated'] is not None:
                    kw['deprecated'] = a['deprecated']
                if a['servers']:
                    kw['servers'] = [mod.Server(url=f'http://srv{i}', **({'name': f's{i}'} if is_rpc else {}))]
                    user_objects.append(kw['servers'])
                if a['external_docs']:
                    kw['external_docs'] = mod.ExternalDocumentation(url=f'http://docs/{i}')
                if a['params_schema']:
                    kw['params_schema'] = ([openrpc.ContentDescriptor(name='p0', schema={'type': 'integer'}, required=True)] if is_rpc
                                           else {'p0': {'type': 'integer'}})
                    user_objects.append(kw['params_schema'])
                if a['result_schema']:
                    kw['result_schema'] = openrpc.ContentDescriptor(name='result', schema={'type': 'string'}) if is_rpc else {'type': 'string'}
                if not is_rpc:
                    if a['security']:
                        kw['security'] = [{'basic': []}]
                        user_objects.append(kw['security'])
                    if a['prefix']:
                        kw['component_name_prefix'] = a['prefix']
                fn = mod.annotate(**kw)(fn)
            exposed = f'custom.name{i}' if ms['custom_name'] else pyname
            naming = spec.get('naming', 'plain')
            if naming == 'case-twins':        # distinct names that differ only in snake_case / camelCase spelling
                exposed = ['get_user', 'getUser', 'add_user', 'addUser'][i % 4]
            elif naming == 'dotted-twins':    # distinct dotted names with the same last segment (versioned APIs)
                exposed = f'v{i + 1}.add'
            elif naming == 'rpc-prefix':      # names under the protocol's reserved-for-extensions prefix: registered methods like any other
                exposed = f'rpc.meth{i}'
            reg = registries[i % spec['endpoints']]
            if view:
                cls = ns[f'View{i}']
                setattr(cls, pyname, fn)
                reg.view(cls, context='context' if ms['ctx'] else None, prefix='custom' if ms['custom_name'] else None)
                exposed = f'custom.{pyname}' if ms['custom_name'] else pyname
            else:
                reg.add(fn, exposed, context='ctx' if ms['ctx'] else None)
            # the error codes this method's entry must mention: the classes of its own `errors=[...]` annotation
            # (OpenAPI documents errors inside the response schema, so there must be one: an extractor that produces schemas or an
            # explicit result_schema; the base extractor alone documents no response at all)
            extracting = any(e in ('pydantic', 'docstring') for e in spec['extractors'])
            has_response_schema = is_rpc or extracting or a['result_schema']
            own_codes = sorted({he.BY_NAME[n].code for n in a['error_names']}) if ms['annotated'] and a['errors'] == 'own' and has_response_schema else []
            # an error the status map moves to another HTTP status gets a schema of its own only when the pydantic extractor is consulted first (the
            # others leave that response's schema empty): not judged there
            moved = set((spec['spec_opts'].get('status_map') or {}).keys()) if not is_rpc and spec['extractors'][0] != 'pydantic' else set()
            own_codes = [c for c in own_codes if str(c) not in moved]
            built.append({'fn': fn, 'exposed': exposed, 'endpoint': i % spec['endpoints'], 'error_codes': own_codes})
            if ms.get('alias') and not view:
                alias = f'alias.of.{pyname}'
                reg.add(fn, alias, context='ctx' if ms['ctx'] else None)
                built.append({'fn': fn, 'exposed': alias, 'endpoint': i % spec['endpoints'], 'alias_of': exposed, 'error_codes': own_codes})
        return registries, built, user_objects

    def _make_spec(self, spec: Dict[str, Any]):
        ex = {'base': extractors.BaseSchemaExtractor, 'pydantic': PydanticSchemaExtractor, 'docstring': DocstringSchemaExtractor}
        stack = [ex[n]() for n in spec['extractors']]
        o = spec['spec_opts']
        if spec['kind'] == 'openrpc':
            kw: Dict[str, Any] = {}
            if o['servers']:
                kw['servers'] = [openrpc.Server(name='main', url='http://localhost')]
            if o['external_docs']:
                kw['external_docs'] = openrpc.ExternalDocumentation(url='http://docs')
            return openrpc.OpenRPC(info=openrpc.Info(title='t', version='1.0'), schema_extractor=stack[0], **kw), kw
        kw = {'openapi': spec['kind'].split('-', 1)[1]}
        if o['servers']:
            kw['servers'] = [openapi.Server(url='http://localhost', description='main')]
        if o['tags']:
            kw['tags'] = [openapi.Tag(name='t1', description='first'), openapi.Tag(name='admin')]
        if o['security']:
            kw['security'] = [{'basic': []}]
            kw['security_schemes'] = {'basic': openapi.SecurityScheme(type=openapi.SecuritySchemeType.HTTP, scheme='basic')}
        if o['external_docs']:
            kw['external_docs'] = openapi.ExternalDocumentation(url='http://docs')
        if o.get('status_map'):
            kw['error_http_status_map'] = {int(k): v for k, v in o['status_map'].items()}
        return openapi.OpenAPI(info=openapi.Info(title='t', version='1.0'), schema_extractors=stack, **kw), kw

    # ---- run -----------------------------------------------------------------------------------------------------------

    def _generate(self, spec: Dict[str, Any], sp: Any, registries: List[Any], only: Optional[Dict[str, Any]] = None) -> Dict[str, Any]:
        prefixes = ['', '/sub'][:len(registries)]
        if spec['kind'] == 'openrpc':
            prefixes = [''] * len(registries)
        mm: Dict[str, List[Any]] = {}
        for pfx, reg in zip(prefixes, registries):
            methods = [m for m in reg.values() if only is None or (m.method is only['fn'] and m.name == only['exposed'])]
            mm.setdefault(pfx, [])
            mm[pfx] += methods
        if spec['kind'] == 'openrpc' and spec.get('_rpc_other_endpoint') and only is None:
            # the application serves a second endpoint besides the one the OpenRPC document is about: a different method under a name
            # the documented endpoint also uses, and one under a name of its own
            other = pjrpc.server.MethodRegistry()
            other.add(_other_endpoint_method, spec['_rpc_other_endpoint'])
            other.add(_other_endpoint_method, OTHER_ENDPOINT_ONLY)
            mm['/sub'] = list(other.values())
        return sp.schema(path=spec['path'], methods_map=mm)

    def _entry(self, spec: Dict[str, Any], doc: Dict[str, Any], b: Dict[str, Any]) -> Tuple[Any, int]:
        """(entry or None, number of entries with that name)"""
        if spec['kind'] == 'openrpc':
            found = [m for m in doc.get('methods', []) if m.get('name') == b['exposed']]
            return (found[0] if found else None), len(found)
        pfx = ['', '/sub'][b['endpoint']]
        key = f"{endpoint_path(spec['path'], pfx)}#{b['exposed']}"
        return doc.get('paths', {}).get(key), 1 if key in doc.get('paths', {}) else 0

    def run_case(self, spec: Any) -> Outcome:
        is_rpc = spec['kind'] == 'openrpc'
        if is_rpc:
            spec = {**spec, 'endpoints': 1, 'extractors': spec['extractors'][:1], '_rpc_other_endpoint': spec['endpoints'] == 2}
        late = bool(spec.get('late_error'))
        if late:
            spec = {**spec, 'methods': [{**m, '_late_error': True} for m in spec['methods']]}
        registries, built, user_objects = self._build_methods(spec)
        if spec.get('_rpc_other_endpoint'):
            spec['_rpc_other_endpoint'] = built[0]['exposed']
        sp, sp_kwargs = self._make_spec(spec)
        if late:
            # the application's error classes come into being AFTER the specification object (app.py builds the spec, the method
            # modules are imported later); the class is unregistered again at the end of the case
            from pjrpc.common.exceptions import JsonRpcErrorMeta
            type('LateError', (pjrpc.exceptions.JsonRpcError,), {'code': LATE_CODE, 'message': 'late'})
        try:
            return self._run_case(spec, registries, built, user_objects, sp, sp_kwargs, late)
        finally:
            if late:
                JsonRpcErrorMeta.__errors_mapping__.pop(LATE_CODE, None)

    def _run_case(self, spec: Any, registries: Any, built: Any, user_objects: Any, sp: Any, sp_kwargs: Any, late: bool) -> Outcome:
        is_rpc = spec['kind'] == 'openrpc'
        where = (f"kind={spec['kind']} extractors={spec['extractors']} endpoints={spec['endpoints']} generations={spec['generations']} path={spec['path']!r} "
                 f"methods={jg.short([{k: v for k, v in m.items() if k != 'annot'} | {'annot': {k: v for k, v in m['annot'].items() if v} if m['annotated'] else None} for m in spec['methods']], 700)}")
        discs: List[Disc] = []
        before = snapshot([[b['fn'].__dict__.get('__pjrpc_meta__') for b in built], user_objects, vars(sp), sp_kwargs])
        docs_: List[Any] = []
        for g in range(spec['generations']):
            try:
                docs_.append(self._generate(spec, sp, registries))
            except Exception as e:
                import traceback
                tb = traceback.extract_tb(e.__traceback__)[-1]
                discs.append(Disc(f"C16/generation-failed/{type(e).__name__}", f"{e!r} at {os.path.basename(tb.filename)}:{tb.name} (generation {g}) | {where}"))
                break
        n_eval = len(docs_)
        if docs_:
            doc = docs_[0]
            # (1) encodable
            try:
                text = json.dumps(doc, cls=specs.JSONEncoder)
                plain = json.loads(text)
            except Exception as e:
                discs.append(Disc(f"C16/not-json-encodable/{type(e).__name__}", f"{e!r} | {where}"))
                plain = None
            if plain is not None:
                # (2) meta-schema
                v = meta_validator('openrpc' if is_rpc else ('oas31' if spec['kind'].endswith('3.1.0') else 'oas30'))
                err = next(iter(v.iter_errors(plain)), None)
                if err is not None:
                    discs.append(Disc(f"C16/meta-schema/{spec['kind']}", f"{err.message[:300]} at {list(err.absolute_path)[:8]} | {where}"))
                # (2b) the document declares the version it was asked for (the first thing either meta-schema constrains: `openapi`
                # must match ^3\.0\.\d / ^3\.1\.\d; stated as its own clause so that it is not lost among other complaints)
                if not is_rpc:
                    wanted = spec['kind'].split('-', 1)[1]
                    if plain.get('openapi') != wanted:
                        discs.append(Disc("C16/declared-version", f"OpenAPI(openapi={wanted!r}) produced a document declaring openapi={plain.get('openapi')!r} | {where}"))
                # (3) refs
                for r in refs_of(plain):
                    ok, _ = resolve(plain, r)
                    if not ok:
                        discs.append(Disc("C16/dangling-ref", f"{r} | {where}"))
                        break
                # (4) completeness
                names = [b['exposed'] for b in built]
                if is_rpc:
                    # whether the methods of ANOTHER endpoint belong into this document is left open (OpenRPC has no endpoint paths); a name
                    # is described once, and it is the documented endpoint's method that is described
                    listed = [m.get('name') for m in plain.get('methods', []) if m.get('name') != OTHER_ENDPOINT_ONLY]
                    if sorted(listed) != sorted(names):
                        discs.append(Disc("C16/methods-listed", f"document lists {listed}, registered {names} | {where}"))
                    elif spec.get('_rpc_other_endpoint') and 'zz_only_on_the_other_endpoint' in json.dumps(
                            [m for m in plain.get('methods', []) if m.get('name') == spec['_rpc_other_endpoint']]):
                        discs.append(Disc("C16/methods-listed/entry-describes-another-endpoints-method",
                                          f"{spec['_rpc_other_endpoint']!r} is described with the parameters of the other endpoint's method | {where}"))
                else:
                    want_keys = set()
                    for b in built:
                        want_keys.add(f"{endpoint_path(spec['path'], ['', '/sub'][b['endpoint']])}#{b['exposed']}")
                    bad = [k for k in plain.get('paths', {}) if not k.startswith('/')]
                    if bad:
                        # the official meta-schemas only allow path keys matching ^/ (3.1 expresses it with unevaluatedProperties,
                        # which jsonschema 3.2 ignores, so it is checked here explicitly for both versions)
                        discs.append(Disc("C16/meta-schema/path-key-without-leading-slash", f"path keys {bad} | {where}"))
                    if set(plain.get('paths', {})) != want_keys:
                        discs.append(Disc("C16/methods-listed", f"document paths {sorted(plain.get('paths', {}))}, expected {sorted(want_keys)} | {where}"))
                # (4b) completeness of the errors: every error class a method is annotated with is documented in its entry (with its code)
                for b in built:
                    if not b.get('error_codes'):
                        continue
                    entry, n_found = self._entry(spec, plain, b)
                    if entry is None:
                        continue
                    blob = json.dumps([entry, closure(plain, entry)])
                    missing = [c for c in b['error_codes'] if not re.search(r'(?<![0-9.])' + re.escape(str(c)) + r'(?![0-9.])', blob)]
                    if missing:
                        discs.append(Disc("C16/completeness/annotated-error-not-documented",
                                          f"{b['exposed']}: error codes {missing} of its errors=[...] annotation appear nowhere in its entry | {where}"))
                        break
                # (4c) text members are strings or absent, never null (the 3.1 meta-schema says so through constructs jsonschema 3.2 skips)
                nulls = null_text_members(plain)
                if nulls:
                    discs.append(Disc("C16/meta-schema/null-text-member", f"{nulls[:3]} | {where}"))
                # (5) purity: repeatability
                for g, other in enumerate(docs_[1:], start=2):
                    try:
                        same = json.loads(json.dumps(other, cls=specs.JSONEncoder)) == plain
                    except Exception:
                        same = False
                    if not same:
                        discs.append(Disc("C16/purity/generation-differs", f"generation {g} differs from the first | {where}"))
                        break
        # (5b) purity: an identically configured specification object created NOW (after everything the application defines exists)
        # describes the same registry with the same document
        if docs_ and late:
            try:
                sp_now, _ = self._make_spec(spec)
                now = json.loads(json.dumps(self._generate(spec, sp_now, registries), cls=specs.JSONEncoder))
                n_eval += 1
                if now != json.loads(json.dumps(docs_[0], cls=specs.JSONEncoder)):
                    discs.append(Disc("C16/purity/depends-on-when-the-generator-was-created",
                                      f"a generator created before an error class was defined documents the registry differently from one created after | {where}"))
            except Exception as e:
                discs.append(Disc(f"C16/generation-failed/{type(e).__name__}", f"{e!r} (generator created late) | {where}"))
        after = snapshot([[b['fn'].__dict__.get('__pjrpc_meta__') for b in built], user_objects, vars(sp), sp_kwargs])
        if before != after:
            which = 'annotations-or-user-objects-modified'
            discs.append(Disc(f"C16/purity/{which}", f"snapshot of method metadata / user lists / specification object changed | {where}"))
        # (6) isolation
        if docs_ and not discs and len(built) >= 2:
            full = json.loads(json.dumps(docs_[0], cls=specs.JSONEncoder))
            for b in built:
                try:
                    sp2, _ = self._make_spec(spec)
                    alone = json.loads(json.dumps(self._generate(spec, sp2, registries, only=b), cls=specs.JSONEncoder))
                    n_eval += 1
                except Exception as e:
                    discs.append(Disc(f"C16/isolation/alone-generation-failed/{type(e).__name__}", f"{e!r} for {b['exposed']} | {where}"))
                    break
                e_full, n_full = self._entry(spec, full, b)
                e_alone, _ = self._entry(spec, alone, b)
                if n_full != 1:
                    discs.append(Disc("C16/method-not-exactly-once", f"{b['exposed']} appears {n_full} times | {where}"))
                    break
                if e_full != e_alone:
                    diff = [k for k in set(list((e_full or {}).get('post', e_full) or {}) + list((e_alone or {}).get('post', e_alone) or {}))
                            if ((e_full or {}).get('post', e_full) or {}).get(k) != ((e_alone or {}).get('post', e_alone) or {}).get(k)]
                    discs.append(Disc("C16/isolation/entry-depends-on-other-methods", f"{b['exposed']}: differing members {sorted(diff)} | {where}"))
                    break
                if closure(full, e_full) != closure(alone, e_alone):
                    discs.append(Disc("C16/isolation/components-depend-on-other-methods", f"{b['exposed']} | {where}"))
                    break
        classes = [f"kind/{spec['kind']}", 'extractors/' + '+'.join(spec['extractors']), f"endpoints/{spec['endpoints']}"]
        if len(built) >= 2:
            classes.append('methods>=2')
        if spec.get('_rpc_other_endpoint'):
            classes.append('openrpc/application-with-another-endpoint')
        if spec['generations'] >= 2:
            classes.append('generations>=2')
        if spec.get('naming', 'plain') != 'plain' and len([m for m in spec['methods'] if m['flavour'] != 'view']) >= 2:
            classes.append(f"naming/{spec['naming']}")
        if late and 'docstring' in spec['extractors'] and any(m['doc'] in ('full', 'raises') for m in spec['methods']):
            classes.append('late-error-class-named-in-docstring')
        if spec['spec_opts'].get('status_map') and not is_rpc:
            classes.append('opts/status-map')
        annotated = [m for m in spec['methods'] if m['annotated']]
        shared = len([m for m in annotated if m['annot']['errors'] == 'shared']) >= 2
        if shared:
            classes.append('shared-errors-list')
        for m in spec['methods']:
            if m.get('alias') and m['flavour'] != 'view':
                classes.append('alias')
            classes.append(f"flavour/{m['flavour']}")
            classes.append(f"doc/{m['doc']}")
            if m['annotated']:
                a = m['annot']
                if a['prefix'] and not is_rpc:
                    classes.append('annot/prefix')
                if a['examples']:
                    classes.append('annot/examples')
                if a['errors'] != 'none':
                    classes.append('annot/errors')
        nontrivial = (len(annotated) >= 2 and len(built) >= 2) or shared or spec['generations'] >= 2
        return Outcome(discs, nontrivial, sorted(set(classes)), evaluations=max(n_eval, 1))


def openapi30(spec: Any, disc: Disc) -> bool:
    """KF-C16-1: an OpenAPI 3.0.x document that carries any generated / annotated JSON schema"""
    has_schema = any(e in ('pydantic', 'docstring') for e in spec['extractors']) or any(
        m['annotated'] and (m['annot']['params_schema'] or m['annot']['result_schema']) for m in spec['methods'])
    return spec['kind'] == 'openapi-3.0.3' and has_schema


def empty_path(spec: Any, disc: Disc) -> bool:
    """KF-C16-3: OpenAPI documents generated for the endpoint path '' (path keys without a leading '/')"""
    if not (spec['kind'].startswith('openapi') and spec['path'] == ''):
        return False
    # the explicit clause, or the 3.0 meta-schema's own complaint about the path keys (singular and plural wording)
    return 'path-key' in disc.bucket or ('match any of the regexes' in disc.detail and "at ['paths']" in disc.detail)


def openrpc_docstring(spec: Any, disc: Disc) -> bool:
    return spec['kind'] == 'openrpc' and spec['extractors'][0] == 'docstring'


C16.matchers = {'openapi30': openapi30, 'openrpc_docstring': openrpc_docstring, 'empty_path': empty_path}

LATE_CODE = 2950

CHECK = C16()

MANIFEST = dict(
    technique="property-based testing (Hypothesis) of generated method sets and annotations: meta-schema validation, $ref closure, completeness, before/after snapshots (purity), repeated generation, and an alone-vs-together metamorphic relation (isolation)",
    level_text=(
        "Generated method sets with annotation combinations, docstrings, extractor stacks, document kinds / versions, endpoint maps and repeated "
        "generations are documented; each document is JSON-encoded, validated against the meta-schemas shipped with the repository, checked "
        "for dangling references and completeness; user objects and method metadata are snapshotted before and after; every method's entry is "
        "compared with its entry when generated alone. Sampling over method sets of <= 4 methods."
    ),
    level_note="meta-schema validation uses jsonschema 3.2 exactly as the repository's tests do; known finding KF-C16-1 muted by predicate",
)
