"""
C10 - under every interleaving of the element handlers of a batch the async dispatcher lists the responses in request
order, each with its own id and result / error, and every method runs exactly once; with concurrent_batch=False no two
elements are ever in flight at the same time and they run in request order.
"""

import json
from typing import Any, Dict, List, Tuple

from hypothesis import strategies as st

from pbt import jsongen as jg, methods as hm, refserver as ref, sched, serverharness as sh, stack
from pbt.stdreg import P
from pbt.runner import Check, Disc, HarnessError, Outcome

REGISTRY = [
    {'name': 'ret', 'params': [P('tag')], 'flavour': 'coro', 'ctx': 'none'},
    {'name': 'rpc', 'params': [P('tag')], 'flavour': 'coro', 'ctx': 'none'},
    {'name': 'exc', 'params': [P('tag')], 'flavour': 'coro', 'ctx': 'none'},
    {'name': 'plain', 'params': [P('tag')], 'flavour': 'func', 'ctx': 'none'},
    {'name': 'v.view', 'params': [P('tag')], 'flavour': 'aview', 'ctx': 'view'},
    # a context-less class based view that keeps per-request scratch state on self across its suspension points
    {'name': 'w.scratch', 'params': [P('tag')], 'flavour': 'aview', 'ctx': 'none', 'scratch': True},
]
BEHAVIOURS = {
    'rpc': {'kind': 'raise_rpc', 'error': {'cls': 'JsonRpcError', 'code': 7, 'message': 'seven', 'data': {'value': None}}},
    'exc': {'kind': 'raise_exc', 'exc': 'RuntimeError', 'marker': 'MARKER-c10'},
}
METHODS = ['ret', 'rpc', 'exc', 'plain', 'v.view', 'nope', 'w.scratch', 'w.scratch']
EXC_TYPES = ['RuntimeError', 'TypeError', 'KeyError', 'AttributeError', 'ValueError', 'AssertionError', 'LookupError']


def behaviours_for(spec: Dict[str, Any]) -> Dict[str, Any]:
    """the failing coroutine method raises the exception type of the case (after its suspension points)"""
    return {**BEHAVIOURS, 'exc': {**BEHAVIOURS['exc'], 'exc': spec.get('exc_type', 'RuntimeError')}}


def build_text(elements: List[Dict[str, Any]], id_style: str = 'ascending') -> str:
    """ids in request order: ascending integers, descending integers, or strings and integers mixed (request order is the only order
    the response array may follow, whatever the ids look like)"""
    doc = []
    n = len(elements)
    for i, el in enumerate(elements):
        o: Dict[str, Any] = {'jsonrpc': '2.0', 'method': el['method'], 'params': {'tag': i}}
        if el['kind'] == 'call':
            o['id'] = i + 1 if id_style == 'ascending' else (n - i) * 7 if id_style == 'descending' else [f'z{i}', 100 - i, f'a{i}', i][i % 4]
        doc.append(o)
    return json.dumps(doc)


def handler_table(spec: Dict[str, Any]) -> Dict[str, Any]:
    # handlers whose effect is visible in the response (annotate / replace), so that a handler that is skipped for one of several
    # concurrently failing elements changes the document
    if spec.get('eh_suspend') is None:
        return {}
    table: Dict[str, Any] = {'generic': [{'kind': spec.get('eh_kind', 'identity'), 'suspend': spec['eh_suspend']}], 'codes': []}
    if spec.get('eh_code7'):
        table['codes'].append([7, [{'kind': spec['eh_code7']}]])
    return table


def total_points(spec: Dict[str, Any]) -> int:
    n = 0
    for el in spec['elements']:
        if el['method'] not in ('plain', 'nope'):
            n += el.get('suspend', 0)
        n += spec.get('mw_suspend') or 0
        if el['method'] in ('rpc', 'exc', 'nope'):
            n += spec.get('eh_suspend') or 0
    return n


class C10(Check):
    pid = 'C10'
    level = 'exploration'
    quick_examples = 300
    thorough_examples = 400
    chunk = 60
    rule = (
        "[round 16: batches of 12 / 23 / 101 elements with all schedules] [drawn in addition since rounds 13-15: the failing coroutine raises one of 7 exception types] "
        "cases: batches of 2..4 elements (call ids ascending, descending or strings and integers mixed in request order), each a call or notification to a coroutine that returns / raises a protocol error / raises an "
        "exception (0..2 suspension points each), a plain non-coroutine function, an async class based view method (with constructor context, and context-less using self as per-request scratch space) or an unknown method; "
        "optional middleware and generic error handler (identity / annotating / replacing, plus an optional handler for the protocol error's code) with 0..1 suspension points each; concurrent_batch on / off; dispatch called with a context object or with none. For every case ALL "
        "interleavings are enumerated by DFS over 'which parked coroutine resumes next' under a harness-owned event-loop scheduler (up to "
        "2520 for 4 x 2; cases whose total suspension points exceed the tier bound follow the sampled schedules drawn by Hypothesis). Oracle "
        "for every schedule: response document == reference server (request order, own id, own result / error), each element executed "
        "exactly once; sequential mode: the probe middleware's begin/finish events never overlap and begin in request order. evaluations = "
        "schedules executed. non-trivial = a case with >= 2 suspending elements (some later element can finish before an earlier one); "
        "distinct = distinct case spec."
    )
    assumptions = [
        "the harness owns the schedule: suspension happens only at harness points (no timers, I/O or threads)",
        "CPython's asyncio ready queue (loop._ready) is used to detect quiescence",
        "a pass-through probe middleware (a plain function returning the next handler's awaitable, never suspends) is added outermost to observe in-flight intervals",
    ]
    trusted_base = ['pbt/sched.py', 'pbt/refserver.py', 'CPython asyncio']
    required_classes = ['mode/concurrent', 'mode/sequential', 'schedules/exhaustive', 'el/notification', 'el/plain', 'el/rpc', 'el/exc',
                        'el/nope', 'el/w.scratch', 'mw/suspends', 'eh/suspends', 'eh/annotate/two-failing-elements', 'reorder-possible']

    def max_points(self, tier: str) -> int:
        return 6 if tier == 'quick' else 8

    def strategy(self, tier: str):
        s_el = st.builds(lambda k, m, s: {'kind': k, 'method': m, 'suspend': s},
                         st.sampled_from(['call', 'call', 'call', 'notification']), st.sampled_from(METHODS + ['ret', 'ret']), st.integers(0, 2))
        bound = self.max_points(tier)

        def fit(spec):
            # shrink suspension counts until the exhaustive enumeration is affordable for this tier
            els = [dict(e) for e in spec['elements']]
            spec = {**spec, 'elements': els}
            i = 0
            while total_points(spec) > bound and i < 50:
                e = els[i % len(els)]
                if e['suspend'] > 0:
                    e['suspend'] -= 1
                elif spec.get('eh_suspend'):
                    spec['eh_suspend'] = 0
                elif spec.get('mw_suspend'):
                    spec['mw_suspend'] = 0
                i += 1
            return spec

        return st.builds(
            lambda c, els, mw, eh, ek, e7, ids: fit({'concurrent': c, 'elements': els, 'mw_suspend': mw, 'eh_suspend': eh, 'eh_kind': ek, 'eh_code7': e7,
                                                     'schedule': 'all', 'id_style': ids, 'exc_type': EXC_TYPES[(len(els) + (eh or 0) + len(ids)) % len(EXC_TYPES)], 'context': 'none' if (len(els) + (mw or 0)) % 3 == 0 else 'object'}),
            st.booleans(), st.lists(s_el, min_size=2, max_size=4), st.sampled_from([None, None, 0, 1]), st.sampled_from([None, None, 0, 1]),
            st.sampled_from(['identity', 'annotate', 'annotate', 'replace']), st.sampled_from([None, None, 'annotate', 'replace']),
            st.sampled_from(['ascending', 'descending', 'mixed']),
        )

    def corpus(self):
        c = lambda m, s, k='call': {'kind': k, 'method': m, 'suspend': s}  # noqa: E731
        out = []
        for conc in (True, False):
            out += [
                {'concurrent': conc, 'elements': [c('ret', 2), c('ret', 2), c('ret', 2)], 'mw_suspend': None, 'eh_suspend': None, 'schedule': 'all'},
                {'concurrent': conc, 'elements': [c('ret', 1), c('rpc', 1, 'notification'), c('exc', 1), c('plain', 0)], 'mw_suspend': 1, 'eh_suspend': 1, 'schedule': 'all'},
                {'concurrent': conc, 'elements': [c('v.view', 1), c('nope', 0), c('ret', 2, 'notification')], 'mw_suspend': 0, 'eh_suspend': 1, 'schedule': 'all'},
            ]
        out.append({'concurrent': True, 'elements': [c('rpc', 1), c('rpc', 1), c('exc', 1), c('exc', 0), c('nope', 0), c('nope', 0)], 'mw_suspend': None,
                    'eh_suspend': 0, 'eh_kind': 'annotate', 'eh_code7': 'replace', 'schedule': 'all'})
        out.append({'concurrent': True, 'elements': [c('ret', 2), c('rpc', 2), c('exc', 2), c('ret', 2)], 'mw_suspend': None, 'eh_suspend': None, 'schedule': 'all'})
        out.append({'concurrent': False, 'context': 'none', 'elements': [c('ret', 1), c('ret', 1), c('rpc', 1, 'notification')], 'mw_suspend': 1, 'eh_suspend': None, 'schedule': 'all'})
        out.append({'concurrent': True, 'context': 'none', 'elements': [c('ret', 1), c('exc', 1)], 'mw_suspend': None, 'eh_suspend': 1, 'eh_kind': 'annotate', 'schedule': 'all'})
        for et in EXC_TYPES:
            for conc in (True, False):
                out.append({'concurrent': conc, 'exc_type': et, 'elements': [c('exc', 1), c('ret', 1), c('exc', 0, 'notification')], 'mw_suspend': None, 'eh_suspend': None, 'schedule': 'all'})
        for conc in (True, False):
            for ids in ('descending', 'mixed'):
                out.append({'concurrent': conc, 'elements': [c('ret', 1), c('ret', 0), c('rpc', 1), c('ret', 0, 'notification')], 'mw_suspend': None, 'eh_suspend': None,
                            'schedule': 'all', 'id_style': ids})
        out.append({'concurrent': True, 'elements': [c('w.scratch', 2), c('w.scratch', 1), c('w.scratch', 2, 'notification')], 'mw_suspend': None, 'eh_suspend': None, 'schedule': 'all'})
        # long batches (positions with two and three digits): few suspension points, so every schedule is still enumerated
        for n in (12, 23, 101):
            for conc in (True, False):
                for ids in ('ascending', 'descending'):
                    els = [c('ret', 0) for _ in range(n)]
                    els[1], els[3], els[5], els[n - 2] = c('ret', 1), c('rpc', 0, 'notification'), c('exc', 0), c('ret', 1)
                    els[7] = c('plain', 0)
                    out.append({'concurrent': conc, 'elements': els, 'mw_suspend': None, 'eh_suspend': None, 'schedule': 'all', 'id_style': ids})
        return out

    # ---- one schedule -----------------------------------------------------------------------------------

    def _run_schedule(self, spec: Dict[str, Any], text: str, choices: List[int]):
        s = sched.Scheduler()
        ev = stack.Events()
        flight: List[List[Any]] = []

        def probe(request, cx, handler):
            # a middleware written as a PLAIN function that returns the next handler's awaitable (allowed by the middleware type):
            # its entry part runs when the dispatcher calls the handler, not when the result is awaited
            tag = request.params.get('tag') if isinstance(request.params, dict) else None
            flight.append(['begin', tag])
            inner = handler(request, cx)

            async def finish():
                try:
                    return await inner
                finally:
                    flight.append(['finish', tag])
            return finish()

        mws = [probe]
        if spec.get('mw_suspend') is not None:
            mws += stack.build_middlewares([{'kind': 'pass', 'suspend': spec['mw_suspend']}], ev, True, s.point)
        table = stack.build_handlers(handler_table(spec), ev, True, s.point)
        sentinel = object()
        ev.sentinel = sentinel
        suspend = {f"tag:{i}": el.get('suspend', 0) for i, el in enumerate(spec['elements'])}
        hm.RT.reset(sentinel, behaviours_for(spec), error_builder=sh.build_error, point=s.point, suspend=suspend)
        d = hm.build_dispatcher('async', REGISTRY, middlewares=mws, error_handlers=table, concurrent_batch=spec['concurrent'])
        # the caller may pass no context at all (dispatch(text)): sequential mode is about the elements, not about the context object
        result, exc, counts = s.run((lambda: d.dispatch(text)) if spec.get('context') == 'none' else (lambda: d.dispatch(text, sentinel)), choices)
        return result, exc, counts, list(hm.RT.log), flight, s.trace

    def run_case(self, spec: Any) -> Outcome:
        text = build_text(spec['elements'], spec.get('id_style', 'ascending'))
        mws_model = [] if spec.get('mw_suspend') is None else [{'kind': 'pass'}]
        exp_doc, exp_executions, _events, _classes = stack.expect_stack(text, REGISTRY, behaviours_for(spec), mws_model, handler_table(spec))
        discs: List[Disc] = []
        seen_buckets = set()
        stats = {'schedules': 0, 'reordered': 0}

        def judge(choices: List[int], result, exc, log, flight) -> None:
            stats['schedules'] += 1
            found: List[Tuple[str, str]] = []
            if exc is not None:
                found.append((f"dispatch-raised/{type(exc).__name__}", repr(exc)))
            else:
                got = ref.NOTHING
                if result is not None:
                    try:
                        got = json.loads(result[0])
                    except Exception as e:
                        found.append(('malformed-return', f"{result!r}: {e}"))
                if not found:
                    for clause, detail in ref.compare_document(exp_doc, got):
                        found.append((f"response/{clause.split('/')[0]}", detail))
                got_exec = [{'method': e['method'], 'args': e['args']} for e in log]
                if not sh._multiset_eq(got_exec, exp_executions):
                    found.append(('executions', f"log {jg.short(got_exec)} expected {jg.short(exp_executions)}"))
            begins = [e[1] for e in flight if e[0] == 'begin']
            finishes = [e[1] for e in flight if e[0] == 'finish']
            if finishes != sorted(finishes):
                stats['reordered'] += 1
            if not spec['concurrent']:
                want = []
                for i in range(len(spec['elements'])):
                    want += [['begin', i], ['finish', i]]
                if flight != want:
                    overlap = any(flight[k][0] == 'begin' and flight[k + 1][0] == 'begin' for k in range(len(flight) - 1))
                    found.append(('sequential/elements-overlap' if overlap else 'sequential/order', f"in-flight trace {flight}"))
            elif begins != list(range(len(spec['elements']))) or sorted(finishes) != list(range(len(spec['elements']))):
                found.append(('probe/each-element-once', f"in-flight trace {flight}"))
            for bucket, detail in found:
                if bucket not in seen_buckets:
                    seen_buckets.add(bucket)
                    discs.append(Disc(f"C10/{bucket}", f"schedule {choices}: {detail} | concurrent={spec['concurrent']} elements={jg.short(spec['elements'])} "
                                                        f"mw={spec.get('mw_suspend')} eh={spec.get('eh_suspend')} handlers={handler_table(spec)}"))

        exhaustive = False
        if spec['schedule'] == 'all':
            limit = spec.get('limit', 3000)

            def run_one(prefix):
                result, exc, counts, log, flight, trace = self._run_schedule(spec, text, prefix)
                return (result, exc, log, flight), counts

            n = 0
            for choices, (result, exc, log, flight) in sched.explore(run_one, limit=limit):
                judge(choices, result, exc, log, flight)
                n += 1
            exhaustive = n < limit
        else:
            result, exc, counts, log, flight, trace = self._run_schedule(spec, text, spec['schedule']['choices'])
            judge(spec['schedule']['choices'], result, exc, log, flight)

        classes = ['mode/concurrent' if spec['concurrent'] else 'mode/sequential']
        if spec.get('context') == 'none':
            classes.append('dispatch/without-context')
        if exhaustive:
            classes.append('schedules/exhaustive')
        for el in spec['elements']:
            classes.append(f"el/{el['method']}")
            if el['kind'] == 'notification':
                classes.append('el/notification')
        if spec.get('mw_suspend'):
            classes.append('mw/suspends')
        if spec.get('eh_suspend') and any(el['method'] in ('rpc', 'exc', 'nope') for el in spec['elements']):
            classes.append('eh/suspends')
        if spec.get('eh_suspend') is not None and len([el for el in spec['elements'] if el['method'] in ('rpc', 'exc', 'nope')]) >= 2:
            classes.append(f"eh/{spec.get('eh_kind', 'identity')}/two-failing-elements")
        if stats['reordered']:
            classes.append('reorder-possible')
        if not spec['concurrent'] and stats['schedules'] > 1:
            classes.append('sequential/more-than-one-schedule')
        suspending = len([el for el in spec['elements'] if (el['method'] not in ('plain', 'nope') and el.get('suspend', 0) > 0)
                          or spec.get('mw_suspend') or (spec.get('eh_suspend') and el['method'] in ('rpc', 'exc', 'nope'))])
        return Outcome(discs, suspending >= 2, sorted(set(classes)), evaluations=stats['schedules'])


CHECK = C10()

MANIFEST = dict(
    technique="exhaustive schedule enumeration (DFS over interleavings under a harness-owned asyncio scheduler) of Hypothesis-generated batch configurations, judged against a reference server",
    level_text=(
        "Generated batch configurations (2..4 elements, suspension points in methods, a middleware and an error handler) are run under a "
        "scheduler the harness owns; for each configuration every interleaving is executed (hundreds to 2520) and each one is compared "
        "with the reference response, the execution multiset and, for sequential mode, the in-flight trace. Exhaustive per configuration "
        "within the bound on suspension points; configurations are sampled."
    ),
    level_note="trusts pbt/sched.py (quiescence via CPython's loop._ready), asyncio itself and pbt/refserver.py; real threads / timers play no part",
)
