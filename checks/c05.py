"""
C05 - messages survive the wire: serialise -> JSON text -> deserialise is lossless, the wire form is
exact, errors deserialise to the class registered for their code (else the supplied base class).
"""

import json
from typing import Any, Dict, List, Optional, Tuple

from hypothesis import strategies as st

import pjrpc
import pjrpc.server
from pjrpc.common import UNSET
from pjrpc.common.exceptions import DeserializationError, JsonRpcError

from pbt import errors as he
from pbt import jsongen as jg
from pbt.runner import Check, Disc, Outcome


# ---- building live objects from specs ----------------------------------------------------------


def build_params(p: Dict[str, Any]) -> Any:
    form = p['form']
    if form == 'none':
        return None
    if form == 'tuple':
        return tuple(p['value'])
    return p['value']


def wire_params(p: Dict[str, Any]) -> Optional[Any]:
    """reference: the params member, or None when there must be no such member"""
    if p['form'] == 'none' or len(p['value']) == 0:
        return None
    return list(p['value']) if p['form'] == 'tuple' else p['value']


def build_error(e: Dict[str, Any]) -> JsonRpcError:
    cls = he.BY_NAME[e['cls']]
    data = UNSET if 'absent' in e['data'] else e['data']['value']
    err = cls(code=e['code'], message=e['message'], data=data)
    if e.get('attach'):
        # what applications do with exception objects: hang their own attributes on them, add notes (none of it is wire content)
        err.retry_after = 30
        err.add_note('raised by the billing backend')
    return err


def wire_error(e: Dict[str, Any]) -> Dict[str, Any]:
    cls = he.BY_NAME[e['cls']]
    w = {
        'code': e['code'] if e['code'] is not None else cls.code,
        'message': e['message'] if e['message'] is not None else cls.message,
    }
    if 'absent' not in e['data']:
        w['data'] = e['data']['value']
    return w


def build_request(r: Dict[str, Any]) -> pjrpc.Request:
    return pjrpc.Request(r['method'], build_params(r['params']), r['id'])


def wire_request(r: Dict[str, Any]) -> Dict[str, Any]:
    w: Dict[str, Any] = {'jsonrpc': '2.0', 'method': r['method']}
    if r['id'] is not None:
        w['id'] = r['id']
    p = wire_params(r['params'])
    if p is not None:
        w['params'] = p
    return w


def build_response(r: Dict[str, Any]) -> pjrpc.Response:
    if 'error' in r:
        return pjrpc.Response(r['id'], error=build_error(r['error']))
    return pjrpc.Response(r['id'], result=r['result'])


def wire_response(r: Dict[str, Any]) -> Dict[str, Any]:
    w: Dict[str, Any] = {'jsonrpc': '2.0', 'id': r['id']}
    if 'error' in r:
        w['error'] = wire_error(r['error'])
    else:
        w['result'] = r['result']
    return w


# ---- strategies --------------------------------------------------------------------------------


def params_strategy():
    v = jg.json_value(6)
    return st.one_of(
        st.just({'form': 'none'}),
        st.builds(lambda xs: {'form': 'list', 'value': xs}, st.lists(v, max_size=4)),
        st.builds(lambda xs: {'form': 'tuple', 'value': xs}, st.lists(v, max_size=4)),
        st.builds(lambda d: {'form': 'dict', 'value': d}, st.dictionaries(jg.keys(), v, max_size=4)),
    )


def error_strategy():
    data = st.one_of(st.just({'absent': True}), st.just({'value': None}), st.builds(lambda v: {'value': v}, jg.json_value(8)))
    code = st.one_of(
        st.sampled_from([0, 1, -1, -32700, -32600, -32601, -32602, -32603, -32000, -32050, -32099, 2001, 2002, 2003, 2004, 2005, 2005, 2006, 2008, 2008, 2009, 3001, 2**31, 10**30]),
        jg.integers(),
    )
    message = st.one_of(st.sampled_from(['', 'm', 'Method not found']), jg.strings())
    base = st.builds(lambda c, m, d: {'cls': 'JsonRpcError', 'code': c, 'message': m, 'data': d}, code, message, data)
    typed_default = st.builds(
        lambda n, m, d: {'cls': n, 'code': None, 'message': m, 'data': d}, st.sampled_from(he.TYPED), st.one_of(st.none(), message), data,
    )
    typed_explicit = st.builds(
        lambda n, m, d: {'cls': n, 'code': he.BY_NAME[n].code, 'message': m, 'data': d}, st.sampled_from(he.TYPED), st.one_of(st.none(), message), data,
    )
    plain = jg.weighted(base, base, typed_default, typed_explicit)
    return jg.weighted(plain, plain, plain, plain.map(lambda e: {**e, 'attach': True}))


def request_strategy(ids=None):
    return st.builds(
        lambda m, p, i: {'method': m, 'params': p, 'id': i},
        st.one_of(st.sampled_from(['m', 'a.b', '', 'rpc.x']), jg.strings()), params_strategy(), jg.valid_ids() if ids is None else ids,
    )


def response_strategy(ids=None):
    ids = jg.valid_ids() if ids is None else ids
    return st.one_of(
        st.builds(lambda i, r: {'id': i, 'result': r}, ids, jg.json_value(10)),
        st.builds(lambda i, r: {'id': i, 'result': r}, ids, st.sampled_from([None, 0, False, '', [], {}])),
        st.builds(lambda i, e: {'id': i, 'error': e}, ids, error_strategy()),
    )


def uniq_ids(items: List[Dict[str, Any]]) -> List[Dict[str, Any]]:
    seen, out = set(), []
    for it in items:
        i = it['id']
        if i is not None:
            k = (type(i).__name__, i)
            if k in seen:
                continue
            seen.add(k)
        out.append(it)
    return out


def program_strategy():
    """a history on ONE batch object: construct, then append / extend / serialise / read steps in any order"""
    def build(target, items, ops):
        # ids stay unique over the whole history (duplicate ids are C06's / C08's subject)
        flat = list(items)
        for o in ops:
            flat += o.get('items', [])
        keep = {id(x) for x in uniq_ids(flat)}
        items = [x for x in items if id(x) in keep]
        ops = [{**o, 'items': [x for x in o['items'] if id(x) in keep]} if 'items' in o else o for o in ops]
        return {'kind': 'batch_program', 'target': target, 'initial': items, 'ops': ops}

    def for_target(target, item):
        return st.builds(lambda spec, strict: {**spec, 'strict': strict}, _for_target(target, item), st.sampled_from([True, True, False]))

    def _for_target(target, item):
        op = st.one_of(
            st.builds(lambda x: {'op': 'append', 'items': [x]}, item),
            st.builds(lambda xs: {'op': 'extend', 'items': xs}, st.lists(item, max_size=3)),
            st.builds(lambda how: {'op': 'serialise', 'how': how}, st.sampled_from(['to_json', 'JSONEncoder', 'server.JSONEncoder'])),
            st.just({'op': 'read'}), st.just({'op': 'compare'}),
        )
        return st.builds(build, st.just(target), st.lists(item, max_size=3), st.lists(op, min_size=1, max_size=6))

    ids = st.one_of(st.integers(0, 9), jg.valid_ids())
    return st.one_of(for_target('request', request_strategy(ids)), for_target('response', response_strategy(ids)))


# codes for the late-definition histories: one nobody has a class for, one of the library's, one of the application's
LATE_CODES = {'fresh': 2960, 'builtin': -32000, 'application': 2002}

ERROR_CLS = ['JsonRpcError', 'JsonRpcError', 'PlainBase', 'IndepBase', 'CodedBase', 'MetaBase', 'SharedBase']


class C05(Check):
    pid = 'C05'
    level = 'exploration'
    quick_examples = 5000
    thorough_examples = 60000
    rule = (
        "[round 16: typed error classes declaring only their code (message inherited or given where raised), also as late classes] [drawn in addition since rounds 13-15: error hierarchies behind sub-metaclasses (with a registry of their own / sharing the global one) as raised class and as error_cls] "
        "cases: requests / responses / errors / batch requests / batch responses / batch-level errors built through the public "
        "constructors from generated arguments (params none/list/tuple/dict incl. empty, ids over integers/strings/null, results and "
        "error data over nested JSON values incl. null, 4299-digit integers, floats, control and astral characters; errors of the base "
        "class, every built-in typed class, harness-registered classes, unregistered codes incl. 0 and negatives, empty messages; "
        "batches of 0..5) x supplied error base class {JsonRpcError, plain subclass, subclass with a code of its own, documented get_error_cls override, hierarchy with a registry of its own (sub-metaclass)}. Oracle: a "
        "reference serialiser computes the expected wire dict from the constructor arguments; to_json, json.dumps(to_json()), "
        "json.dumps(obj, cls=pjrpc.JSONEncoder) and the server encoder must all give it; from_json(json.loads(text)) must give equal "
        "fields, the expected error class, and an identical second to_json. non-trivial = non-scalar payload, or an edge (null result, "
        "null/absent data, empty params, code 0, empty message, id 0 or ''), or a batch of >= 2; distinct = distinct case spec. "
        "batch_program cases: ONE BatchRequest / BatchResponse object taken through a history of append / extend / serialise (three encoders) / "
        "read / compare-with-another-batch steps; at every serialisation and at the end the wire form must be the reference form of exactly the elements added so far "
        "(non-trivial = the batch grew after it had been serialised). late_class cases: a code is deserialised, then a class is defined for it "
        "(a fresh code, one of the library's, one of the application's), then it is deserialised again - the class registered by then is the result (the registry is restored afterwards)."
    )
    assumptions = [
        "constructor arguments are within the documented types (ids: str | int | None; params: list | tuple | dict | None)",
        "values are JSON values without NaN/Infinity and integers below the interpreter's 4300-digit text limit",
        "'no parameters' (None, (), [], {}) is one value on the wire",
    ]
    trusted_base = ['reference serialiser in checks/c05.py', 'python json']
    required_classes = ['request', 'response/result', 'response/error', 'error', 'batch_request', 'batch_response', 'batch_error',
                        'error_cls/PlainBase', 'error_cls/IndepBase', 'error_cls/CodedBase', 'error_cls/MetaBase', 'error_cls/SharedBase', 'edge/null-result', 'edge/absent-data', 'edge/null-data',
                        'edge/empty-params', 'edge/code-0', 'edge/empty-message', 'batch_request/empty', 'batch_program/request', 'batch_program/response',
                        'batch_program/grown-after-serialisation', 'batch_program/not-strict', 'batch_program/compared', 'late-class']

    def strategy(self, tier: str):
        ecls = st.sampled_from(ERROR_CLS)
        return st.one_of(
            st.builds(lambda r: {'kind': 'request', 'request': r}, request_strategy()),
            st.builds(lambda r, c: {'kind': 'response', 'response': r, 'error_cls': c}, response_strategy(), ecls),
            st.builds(lambda e, c: {'kind': 'error', 'error': e, 'error_cls': c}, error_strategy(), ecls),
            st.builds(lambda rs: {'kind': 'batch_request', 'requests': uniq_ids(rs)}, st.lists(request_strategy(jg.valid_ids()), max_size=5)),
            st.builds(lambda rs, c: {'kind': 'batch_response', 'responses': uniq_ids(rs), 'error_cls': c},
                      st.lists(response_strategy(st.one_of(st.integers(0, 6), jg.valid_ids())), max_size=5), ecls),
            st.builds(lambda e, c: {'kind': 'batch_error', 'error': e, 'error_cls': c}, error_strategy(), ecls),
            program_strategy(),
            st.builds(lambda k, p, d: {'kind': 'late_class', 'code_kind': k, 'paths': p, 'declares': d}, st.sampled_from(sorted(LATE_CODES)),
                      st.lists(st.sampled_from(['error', 'response', 'batch']), min_size=1, max_size=3, unique=True), st.sampled_from(['both', 'code-only'])),
        )

    def corpus(self):
        none = {'form': 'none'}
        return [
            {'kind': 'request', 'request': {'method': 'm', 'params': none, 'id': 0}},
            {'kind': 'request', 'request': {'method': 'm', 'params': {'form': 'tuple', 'value': []}, 'id': ''}},
            {'kind': 'response', 'response': {'id': 1, 'result': None}, 'error_cls': 'JsonRpcError'},
            {'kind': 'response', 'response': {'id': 1, 'error': {'cls': 'JsonRpcError', 'code': 0, 'message': '', 'data': {'value': None}}}, 'error_cls': 'JsonRpcError'},
            {'kind': 'error', 'error': {'cls': 'JsonRpcError', 'code': 1, 'message': '', 'data': {'absent': True}}, 'error_cls': 'PlainBase'},
            {'kind': 'error', 'error': {'cls': 'JsonRpcError', 'code': 2005, 'message': 'm', 'data': {'absent': True}}, 'error_cls': 'JsonRpcError'},
            {'kind': 'response', 'response': {'id': 1, 'error': {'cls': 'Custom2005', 'code': None, 'message': None, 'data': {'absent': True}}}, 'error_cls': 'PlainBase'},
            {'kind': 'error', 'error': {'cls': 'JsonRpcError', 'code': 4242, 'message': 'm', 'data': {'absent': True}}, 'error_cls': 'CodedBase'},
            {'kind': 'batch_response', 'responses': [{'id': 1, 'error': {'cls': 'JsonRpcError', 'code': 4242, 'message': 'm', 'data': {'value': 1}}}], 'error_cls': 'CodedBase'},
            {'kind': 'late_class', 'code_kind': 'fresh', 'paths': ['error', 'response', 'batch']},
            {'kind': 'late_class', 'code_kind': 'builtin', 'paths': ['response']},
            {'kind': 'late_class', 'code_kind': 'application', 'paths': ['batch', 'error']},
            {'kind': 'late_class', 'code_kind': 'fresh', 'paths': ['response', 'batch'], 'declares': 'code-only'},
            {'kind': 'late_class', 'code_kind': 'application', 'paths': ['error'], 'declares': 'code-only'},
            {'kind': 'error', 'error': {'cls': 'JsonRpcError', 'code': 2008, 'message': 'given where raised', 'data': {'absent': True}}, 'error_cls': 'JsonRpcError'},
            {'kind': 'batch_response', 'responses': [{'id': 1, 'error': {'cls': 'CodeOnlyChild2009', 'code': None, 'message': None, 'data': {'absent': True}}}], 'error_cls': 'PlainBase'},
            {'kind': 'error', 'error': {'cls': 'Custom2001', 'code': None, 'message': None, 'data': {'absent': True}, 'attach': True}, 'error_cls': 'JsonRpcError'},
            {'kind': 'response', 'response': {'id': 1, 'error': {'cls': 'JsonRpcError', 'code': 5, 'message': 'm', 'data': {'value': [1]}, 'attach': True}}, 'error_cls': 'JsonRpcError'},
            {'kind': 'batch_error', 'error': {'cls': 'JsonRpcError', 'code': 5, 'message': 'm', 'data': {'absent': True}, 'attach': True}, 'error_cls': 'JsonRpcError'},
            {'kind': 'batch_request', 'requests': []},
            {'kind': 'batch_response', 'responses': [{'id': 1, 'error': {'cls': 'JsonRpcError', 'code': 12345, 'message': 'm', 'data': {'absent': True}}}], 'error_cls': 'PlainBase'},
            {'kind': 'batch_response', 'responses': [{'id': 1, 'error': {'cls': 'IndepA', 'code': None, 'message': None, 'data': {'absent': True}}}], 'error_cls': 'IndepBase'},
            {'kind': 'batch_program', 'target': 'request', 'initial': [{'method': 'm', 'params': none, 'id': 1}], 'ops': [
                {'op': 'serialise', 'how': 'to_json'}, {'op': 'extend', 'items': [{'method': 'n', 'params': none, 'id': 2}]}, {'op': 'serialise', 'how': 'JSONEncoder'},
                {'op': 'append', 'items': [{'method': 'o', 'params': none, 'id': None}]}, {'op': 'read'}]},
            {'kind': 'batch_program', 'target': 'request', 'strict': False, 'initial': [{'method': 'm', 'params': none, 'id': 1}, {'method': 'n', 'params': none, 'id': None}],
             'ops': [{'op': 'read'}, {'op': 'append', 'items': [{'method': 'o', 'params': none, 'id': 'x'}]}, {'op': 'read'}]},
            {'kind': 'batch_program', 'target': 'request', 'initial': [{'method': 'm', 'params': none, 'id': 3}, {'method': 'n', 'params': none, 'id': 1}, {'method': 'o', 'params': none, 'id': 2}],
             'ops': [{'op': 'compare'}, {'op': 'serialise', 'how': 'to_json'}, {'op': 'read'}]},
            {'kind': 'batch_program', 'target': 'response', 'initial': [{'id': 'b', 'result': 1}, {'id': 'a', 'result': 2}], 'ops': [{'op': 'compare'}, {'op': 'read'}]},
            {'kind': 'batch_program', 'target': 'response', 'initial': [], 'ops': [
                {'op': 'serialise', 'how': 'server.JSONEncoder'}, {'op': 'append', 'items': [{'id': 1, 'result': None}]}, {'op': 'serialise', 'how': 'to_json'},
                {'op': 'extend', 'items': [{'id': 2, 'result': 1}, {'id': 3, 'error': {'cls': 'JsonRpcError', 'code': 5, 'message': 'm', 'data': {'absent': True}}}]}]},
            {'kind': 'batch_error', 'error': {'cls': 'InvalidRequestError', 'code': None, 'message': None, 'data': {'value': 'x'}}, 'error_cls': 'JsonRpcError'},
        ]

    # ---- run --------------------------------------------------------------------------------------

    def run_program(self, spec: Any) -> Outcome:
        """one batch object through a history of growth and serialisation steps: at every serialisation and at the end the wire form
        is the reference wire form of exactly the elements added so far, in order"""
        target = spec['target']
        build, wire = (build_request, wire_request) if target == 'request' else (build_response, wire_response)
        cls = pjrpc.BatchRequest if target == 'request' else pjrpc.BatchResponse
        # strict=False: the batch does not refuse duplicate ids (none are generated here) - everything else is the same object
        obj = cls(*[build(x) for x in spec['initial']], strict=spec.get('strict', True))
        model = [wire(x) for x in spec['initial']]
        discs: List[Disc] = []
        serialised_before_growth = False
        serialised = False
        compared = [False]

        def check(step: Any, how: str) -> None:
            try:
                if how == 'to_json':
                    got = obj.to_json()
                else:
                    got = json.loads(json.dumps(obj, cls=pjrpc.JSONEncoder if how == 'JSONEncoder' else pjrpc.server.JSONEncoder))
            except Exception as e:
                discs.append(Disc(f"C05/batch_program/{target}/serialise-crash/{type(e).__name__}", f"step {step}: {e}"[:300]))
                return
            if not jg.jeq(got, model):
                discs.append(Disc(f"C05/batch_program/{target}/wire-form-after-history", f"step {step} ({how}): {jg.short(got)} expected {jg.short(model)} | "
                                                                                            f"history {jg.short(spec['ops'], 400)}"))

        for n, o in enumerate(spec['ops']):
            if o['op'] == 'append':
                for x in o['items']:
                    obj.append(build(x))
                    model.append(wire(x))
                    serialised_before_growth = serialised_before_growth or serialised
            elif o['op'] == 'extend':
                obj.extend([build(x) for x in o['items']])
                model += [wire(x) for x in o['items']]
                if o['items']:
                    serialised_before_growth = serialised_before_growth or serialised
            elif o['op'] == 'compare':
                # comparing a batch with another one is a READ-ONLY operation (only that is asserted: what == answers is not part
                # of the property - on the pinned tree it sorts by id and raises TypeError for ids of mixed types / notifications)
                same = cls(*[build(x) for x in spec['initial']], strict=spec.get('strict', True))
                for later in spec['ops'][:n]:
                    if later['op'] in ('append', 'extend'):
                        same.extend([build(x) for x in later['items']])
                for other in (same, cls()):
                    try:
                        obj == other      # noqa: B015
                        obj != other      # noqa: B015
                    except TypeError:
                        pass
                compared[0] = True
            elif o['op'] == 'serialise':
                check(n, o['how'])
                serialised = True
            else:
                if len(obj) != len(model):
                    discs.append(Disc(f"C05/batch_program/{target}/length", f"step {n}: len {len(obj)} expected {len(model)}"))
                ids = [x.id for x in obj]
                if not jg.jeq(ids, [m.get('id') for m in model]):
                    discs.append(Disc(f"C05/batch_program/{target}/iteration", f"step {n}: ids {ids!r} expected {[m.get('id') for m in model]!r}"))
                if target == 'request' and obj.is_notification != all('id' not in m for m in model):
                    discs.append(Disc("C05/batch_program/request/is_notification", f"step {n}: {obj.is_notification} for {jg.short(model)}"))
        check('end', 'to_json')
        check('end', 'JSONEncoder')
        classes = ['batch_program', f'batch_program/{target}'] + ([] if spec.get('strict', True) else ['batch_program/not-strict'])
        if compared[0] and len(model) >= 2:
            classes.append('batch_program/compared')
        if serialised_before_growth:
            classes.append('batch_program/grown-after-serialisation')
        return Outcome(discs, serialised_before_growth, classes)

    def run_late_class(self, spec: Any) -> Outcome:
        """an error code is deserialised, THEN the application defines a class for that code (a module imported later, a class
        overriding an earlier one), then the code is deserialised again: the class registered at that moment is the one to get"""
        from pjrpc.common.exceptions import JsonRpcErrorMeta
        code = LATE_CODES[spec['code_kind']]
        wire = {'code': code, 'message': 'm', 'data': {'x': 1}}
        body = {'jsonrpc': '2.0', 'id': 1, 'error': wire}
        before = JsonRpcErrorMeta.__errors_mapping__.get(code)
        discs: List[Disc] = []

        def cls_of(how: str) -> Any:
            if how == 'error':
                return type(JsonRpcError.from_json(dict(wire)))
            if how == 'response':
                return type(pjrpc.Response.from_json(dict(body)).error)
            return type(pjrpc.BatchResponse.from_json([dict(body)])[0].error)
        try:
            first = [cls_of(h) for h in spec['paths']]
            want_first = before or JsonRpcError
            if any(c is not want_first for c in first):
                discs.append(Disc("C05/late-class/before-definition", f"{[c.__name__ for c in first]} expected {want_first.__name__} for code {code}"))
            # what the class body declares: code and message, or the code alone (message inherited / given where it is raised)
            body_attrs = {'code': code, 'message': 'late'} if spec.get('declares', 'both') == 'both' else {'code': code}
            late = type('LateClass', (before or JsonRpcError,), body_attrs)
            second = [cls_of(h) for h in spec['paths']]
            if any(c is not late for c in second):
                discs.append(Disc("C05/late-class/class-registered-later-not-used",
                                  f"code {code} ({spec['code_kind']}) deserialised to {[c.__name__ for c in second]} after class LateClass was registered for it "
                                  f"(paths {spec['paths']}, class body declares {spec.get('declares', 'both')})"))
        finally:
            if before is None:
                JsonRpcErrorMeta.__errors_mapping__.pop(code, None)
            else:
                JsonRpcErrorMeta.__errors_mapping__[code] = before
        return Outcome(discs, True, ['late-class', f"late-class/{spec['code_kind']}", f"late-class/declares-{spec.get('declares', 'both')}"])

    def run_case(self, spec: Any) -> Outcome:
        kind = spec['kind']
        if kind == 'batch_program':
            return self.run_program(spec)
        if kind == 'late_class':
            return self.run_late_class(spec)
        ecn = spec.get('error_cls', 'JsonRpcError')
        ecls = he.BY_NAME[ecn]
        classes = [kind if kind != 'response' else ('response/error' if 'error' in spec['response'] else 'response/result')]
        if ecn != 'JsonRpcError':
            classes.append(f'error_cls/{ecn}')
        discs: List[Disc] = []
        edges: List[str] = []

        if kind == 'request':
            obj, expected = build_request(spec['request']), wire_request(spec['request'])
            loader = pjrpc.Request.from_json
            edges += self._req_edges(spec['request'])
        elif kind == 'response':
            obj, expected = build_response(spec['response']), wire_response(spec['response'])
            loader = lambda j: pjrpc.Response.from_json(j, error_cls=ecls)  # noqa: E731
            edges += self._resp_edges(spec['response'])
        elif kind == 'error':
            obj, expected = build_error(spec['error']), wire_error(spec['error'])
            loader = ecls.from_json
            edges += self._err_edges(spec['error'])
        elif kind == 'batch_request':
            obj = pjrpc.BatchRequest(*[build_request(r) for r in spec['requests']])
            expected = [wire_request(r) for r in spec['requests']]
            loader = pjrpc.BatchRequest.from_json
            for r in spec['requests']:
                edges += self._req_edges(r)
            if not spec['requests']:
                classes.append('batch_request/empty')
        elif kind == 'batch_response':
            obj = pjrpc.BatchResponse(*[build_response(r) for r in spec['responses']])
            expected = [wire_response(r) for r in spec['responses']]
            loader = lambda j: pjrpc.BatchResponse.from_json(j, error_cls=ecls)  # noqa: E731
            for r in spec['responses']:
                edges += self._resp_edges(r)
        else:
            obj = pjrpc.BatchResponse(error=build_error(spec['error']))
            expected = {'jsonrpc': '2.0', 'id': None, 'error': wire_error(spec['error'])}
            loader = lambda j: pjrpc.BatchResponse.from_json(j, error_cls=ecls)  # noqa: E731
            edges += self._err_edges(spec['error'])
        classes += sorted(set(edges))

        # (1) wire form exact
        wire = obj.to_json()
        if not jg.jeq(wire, expected):
            discs.append(Disc(f"C05/{kind}/wire-form", f"to_json {jg.short(wire)} expected {jg.short(expected)}"))
        # (2) encoders agree
        texts = {}
        for name, enc in (('dumps(to_json)', lambda: json.dumps(wire)), ('JSONEncoder', lambda: json.dumps(obj, cls=pjrpc.JSONEncoder)),
                          ('server.JSONEncoder', lambda: json.dumps(obj, cls=pjrpc.server.JSONEncoder))):
            try:
                texts[name] = enc()
            except Exception as e:
                discs.append(Disc(f"C05/{kind}/encode-failed/{name}/{type(e).__name__}", str(e)[:300]))
                continue
            if not jg.jeq(json.loads(texts[name]), expected):
                discs.append(Disc(f"C05/{kind}/encoder-differs/{name}", f"{texts[name][:300]} expected {jg.short(expected)}"))
        if 'dumps(to_json)' not in texts:
            return Outcome(discs, True, classes)
        # (3) deserialise
        decoded = json.loads(texts['dumps(to_json)'])
        try:
            back = loader(decoded)
        except DeserializationError as e:
            if kind == 'batch_request' and not spec['requests']:
                return Outcome(discs, True, classes)   # empty batch request: refused by design (C06)
            discs.append(Disc(f"C05/{kind}/own-output-rejected", f"{e} for {jg.short(decoded)}"))
            return Outcome(discs, True, classes)
        except Exception as e:
            discs.append(Disc(f"C05/{kind}/deserialise-crash/{type(e).__name__}", f"{e} for {jg.short(decoded)}"))
            return Outcome(discs, True, classes)
        if kind == 'batch_request' and not spec['requests']:
            discs.append(Disc("C05/batch_request/empty-accepted", ''))
        discs += self._compare(kind, spec, back, ecn)
        # (4) fixpoint
        try:
            again = back.to_json()
            if not jg.jeq(again, expected):
                discs.append(Disc(f"C05/{kind}/second-wire-form-differs", f"{jg.short(again)} expected {jg.short(expected)}"))
        except Exception as e:
            discs.append(Disc(f"C05/{kind}/second-to_json-crash/{type(e).__name__}", str(e)[:300]))

        # (3b) separately deserialised messages share nothing: after the application amended the first result's containers (params,
        # result, error data), deserialising the same text again still yields the original message
        if not discs:
            self._scramble(back)
            try:
                fresh = loader(json.loads(texts['dumps(to_json)']))
                for d in self._compare(kind, spec, fresh, ecn):
                    discs.append(Disc(d.bucket.replace('C05/', 'C05/after-amending-an-earlier-result/', 1), d.detail))
            except Exception as e:
                discs.append(Disc(f"C05/after-amending-an-earlier-result/{type(e).__name__}", f"{e!r}"[:300]))
        nontrivial = bool(edges) or self._payload_nonscalar(expected) or (kind.startswith('batch_re') and len(expected) >= 2)
        return Outcome(discs, nontrivial, classes)

    # ---- helpers --------------------------------------------------------------------------------

    @staticmethod
    def _scramble(msg: Any) -> None:
        """what application code (a middleware adding an argument, a handler annotating error data) may do to a deserialised message"""
        def amend(v: Any) -> None:
            if isinstance(v, list):
                v.append('amended')
            elif isinstance(v, dict):
                v['amended'] = True
        items = list(msg) if isinstance(msg, (pjrpc.BatchRequest, pjrpc.BatchResponse)) else [msg]
        for m in items:
            if isinstance(m, pjrpc.Request):
                amend(m.params)
            elif isinstance(m, pjrpc.Response):
                if m.is_success:
                    amend(m.result)
                elif m.error is not UNSET and m.error.data is not UNSET:
                    amend(m.error.data)
            elif isinstance(m, JsonRpcError) and m.data is not UNSET:
                amend(m.data)

    @staticmethod
    def _payload_nonscalar(w: Any) -> bool:
        objs = w if isinstance(w, list) else [w]
        for o in objs:
            for k in ('params', 'result', 'data'):
                if k in o and isinstance(o[k], (list, dict)) and len(o[k]) > 0:
                    return True
            if 'error' in o and isinstance(o['error'].get('data'), (list, dict)) and o['error']['data']:
                return True
        return False

    @staticmethod
    def _req_edges(r):
        e = []
        if r['params']['form'] != 'none' and len(r['params']['value']) == 0:
            e.append('edge/empty-params')
        if r['id'] == 0 or r['id'] == '':
            e.append('edge/id-0-or-empty')
        return e

    @classmethod
    def _err_edges(cls, e):
        out = []
        if 'absent' in e['data']:
            out.append('edge/absent-data')
        elif e['data']['value'] is None:
            out.append('edge/null-data')
        if e['code'] == 0:
            out.append('edge/code-0')
        if e['message'] == '':
            out.append('edge/empty-message')
        return out

    @classmethod
    def _resp_edges(cls, r):
        out = []
        if 'error' in r:
            out += cls._err_edges(r['error'])
        elif r['result'] is None:
            out.append('edge/null-result')
        if r['id'] == 0 or r['id'] == '':
            out.append('edge/id-0-or-empty')
        return out

    def _cmp_req(self, kind, r, back) -> List[Disc]:
        d = []
        if not isinstance(back, pjrpc.Request):
            return [Disc(f"C05/{kind}/type", repr(back))]
        if back.method != r['method']:
            d.append(Disc(f"C05/{kind}/lost/method", f"{back.method!r} vs {r['method']!r}"))
        if not jg.jeq(back.id, r['id']):
            d.append(Disc(f"C05/{kind}/lost/id", f"{back.id!r} vs {r['id']!r}"))
        if back.is_notification != (r['id'] is None):
            d.append(Disc(f"C05/{kind}/lost/is_notification", ''))
        p = wire_params(r['params'])
        if p is None:
            if back.params not in (None, [], {}, ()):
                d.append(Disc(f"C05/{kind}/lost/params-invented", repr(back.params)))
        elif not jg.jeq(back.params, p):
            d.append(Disc(f"C05/{kind}/lost/params", f"{back.params!r} vs {p!r}"))
        return d

    def _cmp_err(self, kind, e, back, ecn) -> List[Disc]:
        d = []
        w = wire_error(e)
        if not isinstance(back, JsonRpcError):
            return [Disc(f"C05/{kind}/type", repr(back))]
        if not jg.jeq(back.code, w['code']):
            d.append(Disc(f"C05/{kind}/lost/code", f"{back.code!r} vs {w['code']!r}"))
        if not jg.jeq(back.message, w['message']):
            d.append(Disc(f"C05/{kind}/lost/message", f"{back.message!r} vs {w['message']!r}"))
        if 'data' in w:
            if back.data is UNSET or not jg.jeq(back.data, w['data']):
                d.append(Disc(f"C05/{kind}/lost/data", f"{back.data!r} vs {w['data']!r}"))
        elif back.data is not UNSET:
            d.append(Disc(f"C05/{kind}/lost/data-invented", repr(back.data)))
        want = he.expected_class(w['code'], ecn)
        if type(back) is not want:
            d.append(Disc(f"C05/{kind}/error-class", f"got {type(back).__name__}, expected {want.__name__} for code {w['code']} with error_cls={ecn}"))
        return d

    def _cmp_resp(self, kind, r, back, ecn) -> List[Disc]:
        d = []
        if not isinstance(back, pjrpc.Response):
            return [Disc(f"C05/{kind}/type", repr(back))]
        if not jg.jeq(back.id, r['id']):
            d.append(Disc(f"C05/{kind}/lost/id", f"{back.id!r} vs {r['id']!r}"))
        if 'error' in r:
            if back.is_success or back.error is UNSET:
                d.append(Disc(f"C05/{kind}/lost/error-became-success", repr(back)))
            else:
                d += self._cmp_err(kind, r['error'], back.error, ecn)
                try:
                    back.result
                    d.append(Disc(f"C05/{kind}/result-does-not-raise", ''))
                except JsonRpcError as ex:
                    if ex is not back.error:
                        d.append(Disc(f"C05/{kind}/result-raises-other-error", repr(ex)))
        else:
            if not back.is_success or back.error is not UNSET:
                d.append(Disc(f"C05/{kind}/lost/success-became-error", repr(back)))
            elif not jg.jeq(back.result, r['result']):
                d.append(Disc(f"C05/{kind}/lost/result", f"{back.result!r} vs {r['result']!r}"))
        return d

    def _compare(self, kind, spec, back, ecn) -> List[Disc]:
        if kind == 'request':
            return self._cmp_req(kind, spec['request'], back)
        if kind == 'response':
            return self._cmp_resp(kind, spec['response'], back, ecn)
        if kind == 'error':
            return self._cmp_err(kind, spec['error'], back, ecn)
        if kind == 'batch_request':
            if not isinstance(back, pjrpc.BatchRequest) or len(back) != len(spec['requests']):
                return [Disc("C05/batch_request/length", repr(back))]
            return [x for r, b in zip(spec['requests'], back) for x in self._cmp_req(kind, r, b)]
        if kind == 'batch_response':
            if not isinstance(back, pjrpc.BatchResponse) or len(back) != len(spec['responses']) or back.is_error:
                return [Disc("C05/batch_response/length", repr(back))]
            return [x for r, b in zip(spec['responses'], back) for x in self._cmp_resp(kind, r, b, ecn)]
        if not isinstance(back, pjrpc.BatchResponse) or back.is_success or len(back) != 0:
            return [Disc("C05/batch_error/flags", repr(back))]
        return self._cmp_err(kind, spec['error'], back.error, ecn)


CHECK = C05()

MANIFEST = dict(
    technique="property-based round-trip testing (Hypothesis) against a reference serialiser written from the property text",
    level_text=(
        "Generated constructor arguments -> object -> to_json / three encoders -> text -> from_json -> fields and class compared, "
        "second to_json compared (fixpoint); the expected wire dict comes from an independent 20-line reference serialiser. "
        "Thousands (quick) to about a million (thorough) generated messages with explicit edge classes that must be non-zero. "
        "Sampling only: absence of violations outside the generated space is not shown."
    ),
    level_note="trusts python's json module and the reference serialiser; NaN/Infinity and > 4299-digit integers are outside the domain",
)
