"""
C18 - each HTTP integration hands a POST with a documented JSON-RPC media type (with or without parameters) to the
dispatcher and replies with exactly the dispatcher's document, the JSON content type and the configured status; nothing
returned -> 200 with an empty body; any other media type -> 415 and no execution; all integrations agree.
"""

import json
from typing import Any, Dict, List, Optional, Tuple

from hypothesis import strategies as st

from pbt import docs, httpapps, jsongen as jg, methods as hm, refserver as ref, serverharness as sh, stdreg
from pbt.runner import Check, Disc, Outcome

DOCUMENTED = ['application/json', 'application/json-rpc', 'application/jsonrequest']
PARAMS = ['', '; charset=utf-8', ';charset=UTF-8', '; charset="utf-8"', ' ; charset=utf8', '; foo=bar', '; charset=utf-8; x=y']
NEAR_MISSES = ['application/jsonx', 'application/x-json', 'text/json', 'application/vnd.api+json', 'application/json-rpcx', 'application/jso',
               'json', 'application/ld+json', 'application/jsonrequests', 'application', 'application/json+rpc']
UNRELATED = ['text/plain', 'application/xml', 'application/x-www-form-urlencoded', 'multipart/form-data; boundary=x', 'application/octet-stream',
             'text/html; charset=utf-8', '*/*', '']
CONFIGURED_DEFAULTS = ['application/json-rpc', 'application/vnd.acme.rpc', 'text/plain', 'application/jsonrequest']
BAD_BODIES = ['ff-fe', 'latin1-call', 'truncated-multibyte', 'lone-continuation']


def bad_body(name: str) -> bytes:
    if name == 'ff-fe':
        return b'\xff\xfe{"jsonrpc": "2.0", "method": "noargs", "id": 1}'
    if name == 'latin1-call':
        return '{"jsonrpc": "2.0", "method": "echo", "params": ["\xe9"], "id": 1}'.encode('latin-1')
    if name == 'truncated-multibyte':
        return '{"jsonrpc": "2.0", "method": "echo", "params": ["€"], "id": 1}'.encode('utf-8').replace(b'\xe2\x82\xac', b'\xe2\x82')
    return b'{"jsonrpc": "2.0", "method": "noargs", "id": "\x80"}'


def nested_for(ps: str, codec: str, s: str, e: str, beh: Any) -> Any:
    """where the extra endpoint lives: on the integration object itself (False), on an aiohttp sub-application / flask blueprint handed to
    add_endpoint (True), or - aiohttp - on a JSON-RPC application of its own mounted with add_subapp ('app'; flask: blueprint)"""
    if e != 'prefix' or ps != 'plain':
        return False
    if codec == 'default' and s == 'default' and len(beh) % 2 == 0:
        return True
    return 'app' if len(beh) % 2 == 1 else False


class C18(Check):
    pid = 'C18'
    level = 'exploration'
    quick_examples = 1500
    thorough_examples = 6000
    chunk = 750
    rule = (
        "[round 16: endpoint prefixes registered without a leading slash] [drawn in addition since rounds 13-15: an application-configured default content type (posted as media type too); a status function consulting a table that changes between cases; a JSON-RPC aiohttp application mounted with add_subapp (own status function)] "
        "cases: integration-independent request = media type {each documented request content type x parameter spellings (charset=utf-8 in "
        "several spellings, other parameters), case variants, 11 near misses (application/jsonx, x-json, text/json, vnd.api+json ...), unrelated "
        "types, header missing} x body {C01-C03 request documents: valid, invalid, batch, notification, non-JSON; four non-UTF-8 byte strings} x "
        "status-by-error function {default, 4 others} x JSON encoder / decoder classes configured on the integration {library defaults, application classes: floats parsed as Decimal, Decimal results written as tagged strings; the reply is then also compared with a dispatcher outside any integration configured the same way} x endpoint {base path, extra endpoint prefix registered with or without a trailing slash, directly or on an aiohttp sub-application / flask blueprint} x scripted method behaviours; every case "
        "is POSTed to aiohttp (TestClient on loopback), flask and werkzeug test clients (werkzeug: default status function and base path only - it "
        "has no such options). Oracle: accepted media type => body == the integration's own dispatcher called on the decoded text, reply "
        "media type application/json, status = the configured function of the dispatcher's codes, nothing returned => 200 + empty body, same "
        "executions; non-UTF-8 body => 400 and nothing executed; other media type => 415 as an HTTP reply and nothing executed; the "
        "integrations agree on (status, parsed body). evaluations = HTTP requests. non-trivial = media type other than bare application/json, "
        "or body other than a single valid call; distinct = distinct spec."
    )
    assumptions = [
        "charset parameters are UTF-8 spellings; media types compare case-insensitively (RFC 7231)",
        "the reply body is compared with the integration's OWN dispatcher (flask uses flask.json), parsed, under type-aware equality",
        "flask's dispatcher gets no context argument (it relies on flask.request), so context identity is not checked here",
    ]
    trusted_base = ['the framework test clients (aiohttp TestClient/TestServer on loopback, flask / werkzeug test clients)']
    required_classes = ['media/documented-bare', 'media/documented-params', 'media/case-variant', 'media/near-miss', 'media/unrelated', 'media/missing',
                        'body/non-utf8', 'body/nothing-returned', 'body/batch', 'body/not-json', 'status/non-default', 'endpoint/prefix',
                        'integration/aiohttp', 'integration/flask', 'integration/werkzeug', 'codec/custom', 'codec/custom/took-effect',
                        'endpoint/prefix-registered-with-trailing-slash', 'endpoint/prefix-registered-without-leading-slash', 'endpoint/on-subapp-or-blueprint', 'status/function-consulting-a-table', 'endpoint/mounted-json-rpc-application',
                        'config/default-content-type', 'config/default-content-type/posted']

    def strategy(self, tier: str):
        reg = stdreg.std_registry('sync') + [httpapps.where_method('base', 'sync'), httpapps.where_method('sub', 'sync')] * 3
        doc = docs.document(reg, kinds=['single'] * 5 + ['batch'] * 3 + ['raw', 'mangled', 'value'])
        s_media = st.one_of(
            st.builds(lambda t, p: t + p, st.sampled_from(DOCUMENTED), st.sampled_from(PARAMS)),
            st.builds(lambda t, p: t + p, st.sampled_from(DOCUMENTED), st.sampled_from(PARAMS)),
            st.sampled_from(DOCUMENTED),
            st.builds(lambda t, p: t.upper() + p, st.sampled_from(DOCUMENTED), st.sampled_from(PARAMS[:3])),
            st.builds(lambda t: t.title(), st.sampled_from(DOCUMENTED)),
            st.builds(lambda t, p: t + p, st.sampled_from(NEAR_MISSES), st.sampled_from(PARAMS[:2])),
            st.sampled_from(UNRELATED), st.none(), st.just('$default'),
        )
        s_body = st.one_of(st.builds(lambda d: {'text': d}, doc), st.builds(lambda d: {'text': d}, doc), st.builds(lambda d: {'text': d}, doc),
                           st.builds(lambda b: {'bytes': b}, st.sampled_from(BAD_BODIES)))
        return st.builds(
            lambda m, b, s, e, beh, base, codec, ps, dct, tbl: {'media': m, 'body': b, 'status': s, 'endpoint': e, 'behaviours': beh, 'base': base, 'codec': codec,
                                                      'default_ct': dct, 'table': tbl,
                                                      'prefix_style': ps, 'nested': nested_for(ps, codec, s, e, beh)},
            s_media, s_body, st.sampled_from(['default', 'default'] + [k for k in httpapps.STATUS_FUNCS if k != 'default']),
            st.sampled_from(['base', 'base', 'prefix']), stdreg.behaviours(), st.sampled_from(['/api', '/api/v1', '/rpc']),
            st.sampled_from(['default', 'default', 'custom']), st.sampled_from(['plain', 'plain', 'trailing-slash', 'no-leading-slash']),
            st.sampled_from([None, None, None, None] + CONFIGURED_DEFAULTS), st.sampled_from([[500, 200], [503, 202], [422, 200], [500, 203], [200, 200]]),
        )

    def corpus(self):
        t = lambda doc: {'text': {'doc': doc, 'ascii': True, 'indent': 0, 'pad': '', 'huge': None, 'mangle': None}}  # noqa: E731
        call = {'jsonrpc': '2.0', 'id': 1, 'method': 'echo', 'params': [1]}
        base = {'status': 'default', 'endpoint': 'base', 'behaviours': {}, 'base': '/api'}
        return [
            {**base, 'media': 'application/json-rpc', 'body': t(call)},
            {**base, 'media': 'application/jsonrequest; charset=utf-8', 'body': t(call)},
            {**base, 'media': 'application/vnd.api+json', 'body': t(call)},
            {**base, 'media': 'text/plain', 'body': t(call)},
            {**base, 'media': None, 'body': t(call)},
            {**base, 'media': 'application/json', 'body': {'bytes': 'ff-fe'}},
            {**base, 'media': 'application/json', 'body': {'bytes': 'latin1-call'}},
            {**base, 'media': 'application/json', 'body': t({'jsonrpc': '2.0', 'method': 'echo', 'params': [1]})},
            {**base, 'media': 'application/json', 'codec': 'custom', 'body': t({'jsonrpc': '2.0', 'id': 1, 'method': 'echo', 'params': [1.5, {'a': [2.25]}]})},
            {**base, 'media': 'application/json', 'codec': 'custom', 'endpoint': 'prefix',
             'body': t([call, {'jsonrpc': '2.0', 'id': 2, 'method': 'echo', 'params': {'a': 0.5}}])},
            {**base, 'media': 'application/json', 'endpoint': 'prefix', 'prefix_style': 'trailing-slash', 'body': t(call)},
            {**base, 'media': 'application/json', 'endpoint': 'prefix', 'prefix_style': 'no-leading-slash', 'body': t(call)},
            {**base, 'media': 'application/json', 'endpoint': 'prefix', 'nested': True, 'body': t([call, {'jsonrpc': '2.0', 'id': 2, 'method': 'where_sub'}])},
            {**base, 'media': 'application/json', 'endpoint': 'base', 'nested': True, 'body': t(call)},
            {**base, 'media': 'application/json', 'endpoint': 'prefix', 'nested': 'app', 'status': 'any-error-500', 'body': t([call, {'jsonrpc': '2.0', 'id': 2, 'method': 'nope'}])},
            {**base, 'media': 'application/json', 'endpoint': 'prefix', 'nested': 'app', 'body': t([call, {'jsonrpc': '2.0', 'id': 2, 'method': 'nope'}])},
            {**base, 'media': 'application/json', 'endpoint': 'base', 'nested': 'app', 'status': 'count', 'body': t(call)},
            {**base, 'media': '$default', 'default_ct': 'application/vnd.acme.rpc', 'body': t(call)},
            {**base, 'media': 'text/plain', 'body': t(call)},
            {**base, 'media': 'application/json', 'default_ct': 'text/plain', 'body': t(call)},
            {**base, 'media': 'application/json', 'status': 'table', 'table': [500, 200], 'body': t({'jsonrpc': '2.0', 'id': 2, 'method': 'nope'})},
            {**base, 'media': 'application/json', 'status': 'table', 'table': [503, 202], 'body': t({'jsonrpc': '2.0', 'id': 2, 'method': 'nope'})},
            {**base, 'media': 'APPLICATION/JSON', 'status': 'any-error-500', 'body': t([call, {'jsonrpc': '2.0', 'id': 2, 'method': 'nope'}])},
        ]

    def run_case(self, spec: Any) -> Outcome:
        # the application may configure another default content type (what the library's clients send and its servers answer with);
        # the set of request media types a server accepts is documented separately and does not follow it
        import pjrpc.common
        default_ct = spec.get('default_ct')
        httpapps.STATUS_TABLE.update(zip(('error', 'ok'), spec.get('table') or (500, 200)))
        try:
            if default_ct:
                pjrpc.common.set_default_content_type(default_ct)
            return self._run_case(spec)
        finally:
            pjrpc.common.DEFAULT_CONTENT_TYPE = 'application/json'

    def _run_case(self, spec: Any) -> Outcome:
        media = spec['media']
        if media == '$default':
            media = spec.get('default_ct') or 'application/json'
        body_spec = spec['body']
        if 'bytes' in body_spec:
            body, text = bad_body(body_spec['bytes']), None
        else:
            text = docs.render(body_spec['text'])
            body = text.encode('utf-8', errors='surrogatepass')
            try:
                body.decode('utf-8')
            except UnicodeDecodeError:
                text = None
        mimetype = (media or '').split(';')[0].strip().lower()
        accepted = mimetype in DOCUMENTED
        behaviours = stdreg.effective_behaviours(spec['behaviours'])
        discs: List[Disc] = []
        observations: Dict[str, Tuple[int, Any]] = {}
        evaluations = 0
        where0 = f"media={media!r} status_fn={spec['status']}{httpapps.STATUS_TABLE if spec['status'] == 'table' else ''} configured_default={spec.get('default_ct')!r} endpoint={spec['endpoint']} body={(text if text is not None else repr(body))[:250]!r}"
        for integration in ('aiohttp', 'flask', 'werkzeug'):
            status_name = spec['status'] if integration != 'werkzeug' else 'default'
            endpoint = spec['endpoint'] if integration != 'werkzeug' else 'base'
            codec = spec.get('codec', 'default')
            post, dispatcher_for = httpapps.get_app(integration, status_name, spec['base'], codec, spec.get('prefix_style', 'plain'), spec.get('nested') or False)
            sentinel = object()
            hm.RT.reset(sentinel, behaviours, error_builder=sh.build_error)
            where = f"{integration}: {where0}"
            evaluations += 1
            try:
                status, ctype, raw = post(endpoint, body, media)
            except Exception as e:
                discs.append(Disc(f"C18/{integration}/request-raised/{type(e).__name__}", f"{e!r} | {where}"))
                continue
            http_log = [{'method': e['method'], 'args': e['args']} for e in hm.RT.log]
            if not accepted:
                if status != 415:
                    discs.append(Disc(f"C18/{integration}/unsupported-media-type-not-refused", f"status {status} body {raw[:200]!r} | {where}"))
                if http_log:
                    discs.append(Disc(f"C18/{integration}/executed-despite-415", f"{http_log} | {where}"))
                observations[integration] = (status, None)
                continue
            if text is None:
                if status != 400:
                    discs.append(Disc(f"C18/{integration}/undecodable-body-not-refused", f"status {status} body {raw[:200]!r} | {where}"))
                if http_log:
                    discs.append(Disc(f"C18/{integration}/executed-despite-undecodable-body", f"{http_log} | {where}"))
                observations[integration] = (status, None)
                continue
            # the integration's own dispatcher on the decoded text
            dkind, dispatcher = dispatcher_for(endpoint)
            hm.RT.reset(sentinel, behaviours, error_builder=sh.build_error)
            direct = hm.run_dispatch(dkind, dispatcher, text, None)
            direct_log = [{'method': e['method'], 'args': e['args']} for e in hm.RT.log]
            own_fn = integration == 'aiohttp' and spec.get('nested') == 'app' and endpoint == 'prefix'     # a mounted application answers with ITS status function
            fn = httpapps.STATUS_FUNCS[httpapps.sub_status(status_name) if own_fn else status_name]
            if direct is None:
                want_status, want_doc = 200, ref.NOTHING
            else:
                want_doc = json.loads(direct[0])
                want_status = 200 if fn is None else fn(direct[1])
            if status != want_status:
                discs.append(Disc(f"C18/{integration}/status", f"status {status} expected {want_status} (codes {None if direct is None else direct[1]}) | {where}"))
            if direct is None:
                if raw != b'':
                    discs.append(Disc(f"C18/{integration}/body-for-nothing", f"body {raw[:200]!r} | {where}"))
                got_doc: Any = ref.NOTHING
            else:
                try:
                    got_doc = json.loads(raw.decode('utf-8'))
                except Exception as e:
                    got_doc = ['unparsable', repr(raw[:200])]
                    discs.append(Disc(f"C18/{integration}/body-not-json", f"{raw[:200]!r}: {e} | {where}"))
                if not jg.jeq(got_doc, want_doc):
                    discs.append(Disc(f"C18/{integration}/body-differs-from-dispatcher", f"http {jg.short(got_doc)} dispatcher {jg.short(want_doc)} | {where}"))
                # with a configured default flask and werkzeug answer with it while aiohttp keeps application/json: either is accepted
                if (ctype or '').split(';')[0].strip().lower() not in ('application/json', (spec.get('default_ct') or 'application/json').lower()):
                    discs.append(Disc(f"C18/{integration}/reply-content-type", f"{ctype!r} | {where}"))
            if codec != 'default' and direct is not None:
                # the same registry behind a dispatcher outside any integration, configured with the same encoder / decoder classes
                hm.RT.reset(sentinel, behaviours, error_builder=sh.build_error)
                bare = hm.run_dispatch(dkind, httpapps.bare_dispatcher(dkind, 'base' if endpoint == 'base' else 'sub', codec), text, None)
                if bare is None or not jg.jeq(got_doc, json.loads(bare[0])):
                    discs.append(Disc(f"C18/{integration}/body-differs-from-bare-dispatcher-with-same-codec",
                                      f"http {jg.short(got_doc)} bare dispatcher {jg.short(None if bare is None else json.loads(bare[0]))} | {where}"))
            if not sh._multiset_eq(http_log, direct_log):
                discs.append(Disc(f"C18/{integration}/executions", f"http {jg.short(http_log)} direct {jg.short(direct_log)} | {where}"))
            if endpoint != spec['endpoint']:
                continue      # werkzeug has no extra endpoints: it served another registry, nothing to compare
            observations[integration] = (status, got_doc) if status_name == spec['status'] and not own_fn else (None, got_doc)
        # differential between integrations
        names = sorted(observations)
        for a in names:
            for b in names:
                if a < b:
                    sa, da = observations[a]
                    sb, db = observations[b]
                    if sa is not None and sb is not None and sa != sb:
                        discs.append(Disc(f"C18/differential/status/{a}-vs-{b}", f"{sa} vs {sb} | {where0}"))
                    elif da is not None and db is not None and not ((da == ref.NOTHING and db == ref.NOTHING) or (da != ref.NOTHING and db != ref.NOTHING and jg.jeq(da, db))):
                        discs.append(Disc(f"C18/differential/body/{a}-vs-{b}", f"{jg.short(da)} vs {jg.short(db)} | {where0}"))

        classes = ['integration/aiohttp', 'integration/flask', 'integration/werkzeug']
        if media is None:
            classes.append('media/missing')
        elif accepted:
            if media in DOCUMENTED:
                classes.append('media/documented-bare')
            elif media.split(';')[0] != media.split(';')[0].lower():
                classes.append('media/case-variant')
            else:
                classes.append('media/documented-params')
        elif mimetype in [n.lower() for n in NEAR_MISSES]:
            classes.append('media/near-miss')
        else:
            classes.append('media/unrelated')
        single_valid_call = False
        if text is None:
            classes.append('body/non-utf8')
        else:
            exp = ref.expect(text, stdreg.std_registry('sync'), behaviours)
            if exp.doc == ref.NOTHING:
                classes.append('body/nothing-returned')
            if isinstance(exp.parsed, list):
                classes.append('body/batch')
            if exp.klass == 'doc/not-json':
                classes.append('body/not-json')
            single_valid_call = exp.klass == 'doc/single-call' and exp.elements[0].outcome == 'result'
        if spec['status'] != 'default':
            classes.append('status/non-default')
        if spec['status'] == 'table':
            classes.append('status/function-consulting-a-table')
        if spec.get('default_ct'):
            classes.append('config/default-content-type')
            if spec['media'] == '$default' or mimetype == spec['default_ct']:
                classes.append('config/default-content-type/posted')
        if spec['endpoint'] == 'prefix':
            classes.append('endpoint/prefix')
            if spec.get('prefix_style', 'plain') != 'plain':
                classes.append('endpoint/prefix-registered-with-trailing-slash' if spec['prefix_style'] == 'trailing-slash' else 'endpoint/prefix-registered-without-leading-slash')
            if spec.get('nested') == 'app':
                classes.append('endpoint/mounted-json-rpc-application')
            if spec.get('nested'):
                classes.append('endpoint/on-subapp-or-blueprint')
        if spec.get('codec', 'default') != 'default':
            classes.append('codec/custom')
            if text is not None and accepted and 'decimal:' in json.dumps([o[1] for o in observations.values()], default=repr):
                classes.append('codec/custom/took-effect')
        nontrivial = media != 'application/json' or not single_valid_call
        return Outcome(discs, nontrivial, classes, evaluations)


CHECK = C18()

MANIFEST = dict(
    technique="property-based testing (Hypothesis) of HTTP requests through the framework test clients, judged against the integration's own dispatcher (differential) and across integrations",
    level_text=(
        "Generated (media type, body, status function, endpoint) combinations are POSTed to cached aiohttp, flask and werkzeug apps through the "
        "frameworks' test clients; the reply is compared with what the same integration's dispatcher returns for the decoded text, with the "
        "415 / 400 refusal rules, and with the replies of the other integrations. Sampling; real network servers and other frameworks are not exercised."
    ),
    level_note="trusts the framework test clients; werkzeug has no status / endpoint options so only defaults are exercised there",
)
