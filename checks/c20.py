"""
C20 - the pytest mocker answers as configured: patches for an (endpoint, method) pair are used round-robin in order of
addition, a `once` patch exactly once, the reply carries the request id and the configured result / error / callback
value, calls are recorded; unpatched method on a patched endpoint -> -32601; endpoint without patches -> passthrough or
refusal; batches element-wise.
"""

import itertools
import json
from typing import Any, Dict, List, Optional, Tuple

from hypothesis import strategies as st

import pjrpc
from pjrpc.client.integrations.pytest import PjRpcMocker
from pjrpc.common import UNSET

from pbt import jsongen as jg, methods as hm, mocktargets
from pbt.runner import Check, Disc, Outcome

ENDPOINTS = ['http://one/api', 'http://two/api']
METHODS = ['alpha', 'beta', 'gamma']      # gamma is never patched
PARAMS = [None, [], [1], [1, 'x', None], {'a': 1}, {'k': [1], 'j': {'z': None}}, [0], {'a': 0}]
IDS = [1, 0, 2, 'x', '', 10**20, -1]


def make_patch(p: Dict[str, Any], serial: int) -> Dict[str, Any]:
    """kwargs for mocker.add / replace"""
    k = p['kind']
    own_id = {'id': p['patch_id']} if 'patch_id' in p else {}     # a patch may carry an id of its own; the reply still carries the REQUEST id
    if k == 'result':
        return {'result': p['value'], **own_id}
    if k == 'error':
        return {'error': pjrpc.exc.JsonRpcError(code=p['code'], message=p['message'], data=p.get('data', UNSET) if 'data' in p else UNSET), **own_id}
    if k == 'callback-raises':
        def boom(*a: Any, _s: int = serial, **kw: Any) -> Any:
            raise CallbackBoom(_s)
        return {'callback': boom}
    return {'callback': (lambda *a, _s=serial, **kw: {'cb': _s, 'args': list(a), 'kwargs': kw})}


class CallbackBoom(Exception):
    """raised by a user callback patch"""


class C20(Check):
    pid = 'C20'
    level = 'exploration'
    quick_examples = 1200
    thorough_examples = 10000
    chunk = 600
    rule = (
        "[drawn in addition since rounds 13-15: replace indices counted from the back; notifications to patched methods judged; batch elements may be notifications; every history of length <= 4 (quick) / <= 6 (thorough) over {add, add once, call, notify, batch of call + notification, remove endpoint, remove method} on one pair, followed by a probing call, enumerated] "
        "cases: operation/call histories of up to 9 steps over 2 endpoints x 3 methods (one never patched): add(result | error | callback | callback that raises, patches carrying an id of their own, "
        "once on/off), replace(existing index, counted from the front or - negative - from the back), remove(endpoint, method) / remove(endpoint) (existing only), reset, call (positional / named / "
        "absent params, ids incl. 0 and '' via hand-built request texts), batch call (1..3 elements incl. unpatched methods), notifications to endpoints without patches, plus structured scenarios (2..3 patches on one pair, a replace at a chosen index, then a full rotation of calls; two methods patched on one endpoint of which one is used up or removed); passthrough "
        "on/off; sync and async targets (harness client classes patched through PjRpcMocker(target=...); the shipped PjRpcRequestsMocker "
        "shortcut for a share of the sync runs). Oracle: a model endpoint -> (method -> list of patches) + recorded calls: a call is answered "
        "by the head patch, which rotates to the tail unless `once`; exhausted lists disappear; the reply carries the request id and the "
        "configured result / error (code, message, data) / callback value; unpatched method on a patched endpoint => -32601; endpoint without "
        "patches => the original transport is invoked exactly once with the same text (passthrough) or ConnectionRefusedError; batches "
        "element-wise and in order; mocker.calls[endpoint][('2.0', method)].call_args_list equals the model's record. non-trivial = >= 2 "
        "patches on one pair with a `once` among them, or a replace / remove between calls, or a batch; distinct = distinct spec."
    )
    assumptions = [
        "how a patched endpoint ANSWERS a notification is outside the statement (not judged); that the notification is recorded and takes its turn in the rotation is judged; on endpoints without patches notifications are passed through with the same arguments (text, flag, transport keyword arguments) / refused",
        "a user callback that raises propagates out of the patched transport; the call is still recorded and the patch rotation consumed",
        "replace / remove are only issued for existing patches / indices",
        "a second PjRpcMocker patching another client class is alive during every case (with patches for the same endpoints): mockers are independent objects",
    ]
    trusted_base = ['deque model in checks/c20.py']
    required_classes = ['batch/with-notification', 'op/add', 'op/replace', 'op/replace/index-from-the-back', 'op/remove-method', 'op/remove-endpoint', 'op/reset', 'op/call', 'op/batch', 'patch/result',
                        'patch/error', 'patch/callback', 'once', 'round-robin>=2', 'passthrough/on', 'passthrough/off', 'target/sync',
                        'target/async', 'target/requests', 'unpatched-method', 'unpatched-endpoint', 'id/0', 'callback-raised', 'op/notify-unpatched-endpoint', 'op/notify-patched-method', 'patch/own-id']

    def strategy(self, tier: str):
        s_ep = st.integers(0, 1)
        s_m = st.sampled_from([0, 0, 1])
        s_patch = st.one_of(
            st.builds(lambda v: {'kind': 'result', 'value': v}, st.one_of(st.sampled_from([None, 0, False, 'r', [1], {'a': 1}]), jg.cheap_value())),
            st.builds(lambda c, m, d: {'kind': 'error', 'code': c, 'message': m, **d}, st.sampled_from([1, 0, -32000, 2001]), st.sampled_from(['m', '']),
                      st.sampled_from([{}, {'data': None}, {'data': {'x': 1}}])),
            st.just({'kind': 'callback'}), st.just({'kind': 'callback'}), st.just({'kind': 'callback-raises'}),
            st.builds(lambda v, i: {'kind': 'result', 'value': v, 'patch_id': i}, st.sampled_from([None, 'r', 0]), st.sampled_from([77, 'patch-id', 0])),
            st.builds(lambda i: {'kind': 'error', 'code': 5, 'message': 'm', 'patch_id': i}, st.sampled_from([77, 'patch-id'])),
        )
        s_params = st.sampled_from(PARAMS)
        s_id = st.sampled_from(IDS)
        s_op = st.one_of(
            st.builds(lambda e, m, p, o: ['add', e, m, p, o], s_ep, s_m, s_patch, st.booleans()),
            st.builds(lambda e, m, p, o: ['add', e, m, p, o], s_ep, s_m, s_patch, st.booleans()),
            st.builds(lambda e, m, i, p, o: ['replace', e, m, i, p, o], s_ep, s_m, st.sampled_from([0, 1, 2, 3, 0, 1, -1, -2, -3]), s_patch, st.booleans()),
            st.builds(lambda e, m: ['remove', e, m], s_ep, st.sampled_from([0, 1, None])),
            st.just(['reset']),
            st.builds(lambda e, m, p, i: ['call', e, m, p, i], s_ep, st.sampled_from([0, 0, 0, 1, 2]), s_params, s_id),
            st.builds(lambda e, m, p, i: ['call', e, m, p, i], s_ep, st.sampled_from([0, 0, 0, 1, 2]), s_params, s_id),
            st.builds(lambda e, m, p, i: ['call', e, m, p, i], s_ep, st.sampled_from([0, 0, 0, 1, 2]), s_params, s_id),
            st.builds(lambda e, m, p: ['notify', e, m, p], s_ep, st.sampled_from([0, 1, 2]), s_params),
            st.builds(lambda e, els: ['batch', e, [list(x) for x in els]], s_ep,
                      st.lists(st.tuples(st.sampled_from([0, 0, 1, 2]), s_params, st.sampled_from([False, False, False, True])), min_size=1, max_size=3)),
        )
        # structured scenario: several patches on one pair, a replace / remove at a chosen position, then a full rotation of calls
        def scenario(e, m, patches, onces, idx, newp, newonce, extra):
            ops = [['add', e, m, p, o] for p, o in zip(patches, onces)]
            ops.append(['replace', e, m, idx, newp, newonce] if extra != 'remove' else ['call', e, m, [1], 1])
            ops += [['call', e, m, [n], n] for n in range(len(patches) + 2)]
            return ops
        s_scenario = st.builds(scenario, s_ep, st.sampled_from([0, 1]), st.lists(s_patch, min_size=2, max_size=3),
                               st.lists(st.sampled_from([False, False, True]), min_size=3, max_size=3), st.sampled_from([0, 1, 2, -1, -2]), s_patch, st.booleans(),
                               st.sampled_from(['replace', 'replace', 'remove']))
        # two methods patched on one endpoint; one of them is used up (once) or removed; the other must keep answering
        def scenario2(e, p1, p2, how, extra_call):
            ops = [['add', e, 0, p1, how == 'once'], ['add', e, 1, p2, False]]
            ops.append(['call', e, 0, [1], 1] if how == 'once' else ['remove', e, 0])
            ops += [['call', e, 1, [2], 2], ['call', e, 0, [3], 3], ['call', e, 1, {'a': 4}, 4]]
            if extra_call:
                ops.append(['batch', e, [[1, [5]], [0, None], [2, None]]])
            return ops
        s_scenario2 = st.builds(scenario2, s_ep, s_patch, s_patch, st.sampled_from(['once', 'remove']), st.booleans())

        # a pair is patched, used part of the way through its rotation, cleared (remove method / remove endpoint / reset / used-up once
        # patches) and patched again: the new patches answer from THEIR first one on
        def scenario3(e, m, first, used, how, second, calls):
            ops = [['add', e, m, p, how == 'once'] for p in first]
            ops += [['call', e, m, [n], n] for n in range(used if how != 'once' else len(first))]
            if how == 'remove-method':
                ops.append(['remove', e, m])
            elif how == 'remove-endpoint':
                ops.append(['remove', e, None])
            elif how == 'reset':
                ops.append(['reset'])
            ops += [['add', e, m, p, False] for p in second]
            ops += [['call', e, m, {'a': n}, 10 + n] if n != 1 else ['notify', e, m, [n]] for n in range(calls)]
            return ops
        s_scenario3 = st.builds(scenario3, s_ep, st.sampled_from([0, 1]), st.lists(s_patch, min_size=2, max_size=3), st.integers(1, 2),
                                st.sampled_from(['remove-method', 'remove-endpoint', 'reset', 'once']), st.lists(s_patch, min_size=2, max_size=3), st.integers(3, 5))
        s_ops = st.one_of(st.lists(s_op, min_size=2, max_size=8), st.lists(s_op, min_size=2, max_size=8), s_scenario, s_scenario2, s_scenario3)
        return st.builds(
            lambda t, pt, ops: {'target': t, 'passthrough': pt if t != 'requests' else False, 'ops': [list(o) for o in ops]},
            st.sampled_from(['sync', 'sync', 'async', 'async', 'requests']), st.booleans(), s_ops,
        )

    # ---- bounded exhaustive part: every history over a small operation alphabet on one (endpoint, method) pair ------------------

    def _words(self, maxlen: int, shard: int = 0, nshards: int = 1):
        r = lambda v: {'kind': 'result', 'value': v}  # noqa: E731
        k = 0
        for n in range(1, maxlen + 1):
            for word in itertools.product('AOCNBRM', repeat=n):
                if word[0] not in 'AO':
                    continue        # nothing is patched yet: such histories start with an add
                k += 1
                if k % nshards != shard:
                    continue
                ops: List[Any] = []
                for i, w in enumerate(word):
                    ops.append({'A': ['add', 0, 0, r(f'A{i}'), False], 'O': ['add', 0, 0, r(f'O{i}'), True], 'C': ['call', 0, 0, [i], i + 1],
                                'N': ['notify', 0, 0, [i]], 'B': ['batch', 0, [[0, [i]], [0, None, True]]], 'R': ['remove', 0, None], 'M': ['remove', 0, 0]}[w])
                ops.append(['call', 0, 0, [99], 99])        # whatever the history left behind is probed by one more call
                yield {'target': ['sync', 'async'][k % 2], 'passthrough': (k // 2) % 2 == 0, 'ops': ops}

    def enumerate(self, tier: str):
        return self._words(4) if tier == 'quick' else None

    def enum_shards(self, tier: str) -> int:
        return 16

    def enumerate_shard(self, tier: str, shard: int, nshards: int):
        return self._words(6, shard, nshards)

    def exhaustive_note(self, tier: str) -> str:
        n = 4 if tier == 'quick' else 6
        return (f"all histories of length <= {n} over {{add, add once, call, notify, batch of a call + a notification, remove endpoint, remove method}} on one "
                "(endpoint, method) pair, each followed by a probing call (target and passthrough rotate)")

    def corpus(self):
        r = lambda v: {'kind': 'result', 'value': v}  # noqa: E731
        return [
            {'target': 'sync', 'passthrough': False, 'ops': [['add', 0, 0, r(1), False], ['call', 0, 0, [1], 0], ['call', 0, 0, None, '']]},
            {'target': 'async', 'passthrough': True, 'ops': [['add', 0, 0, r('a'), True], ['add', 0, 0, r('b'), False], ['add', 0, 0, {'kind': 'callback'}, False],
                                                               ['call', 0, 0, [1], 1], ['call', 0, 0, {'a': 1}, 2], ['call', 0, 0, [], 3], ['call', 0, 0, [1], 4], ['call', 1, 0, [1], 5]]},
            # a notification to a patched method takes its turn in the rotation, uses up a `once` patch and is recorded
            {'target': 'sync', 'passthrough': False, 'ops': [['add', 0, 0, r('A'), True], ['add', 0, 0, r('B'), False], ['add', 0, 0, {'kind': 'callback'}, False],
                                                              ['notify', 0, 0, [7]], ['call', 0, 0, [1], 1], ['notify', 0, 0, {'a': 8}], ['call', 0, 0, [2], 2], ['call', 0, 0, [3], 3]]},
            {'target': 'async', 'passthrough': True, 'ops': [['add', 1, 1, r('A'), False], ['add', 1, 1, r('B'), False], ['notify', 1, 1, None], ['call', 1, 1, [1], 1],
                                                               ['notify', 1, 2, [1]], ['call', 1, 1, [2], 2], ['notify', 0, 0, [5]]]},
            {'target': 'sync', 'passthrough': False, 'ops': [['add', 0, 0, r('A'), False], ['add', 0, 0, r('B'), False], ['call', 0, 0, [1], 1], ['remove', 0, 0],
                                                              ['add', 0, 0, r('C'), False], ['add', 0, 0, r('D'), False], ['call', 0, 0, [1], 2], ['call', 0, 0, [1], 3], ['call', 0, 0, [1], 4]]},
            {'target': 'async', 'passthrough': True, 'ops': [['add', 1, 1, r('A'), False], ['add', 1, 1, r('B'), False], ['add', 1, 1, r('B2'), False], ['call', 1, 1, [1], 1],
                                                               ['remove', 1, None], ['add', 1, 1, r('C'), False], ['add', 1, 1, r('D'), False], ['call', 1, 1, [1], 2], ['call', 1, 1, [1], 3]]},
            {'target': 'requests', 'passthrough': False, 'ops': [['add', 0, 0, {'kind': 'error', 'code': 0, 'message': '', 'data': None}, False],
                                                                   ['batch', 0, [[0, [1]], [2, None], [0, {'a': 1}]]], ['remove', 0, 0], ['call', 0, 0, [1], 1]]},
        ]

    def run_case(self, spec: Any) -> Outcome:
        target = spec['target']
        is_async = target == 'async'
        if target == 'requests':
            from pjrpc.client.backend import requests as rb
            tstr = 'pjrpc.client.backend.requests.Client._request'
            clients = [rb.Client(ep) for ep in ENDPOINTS]
        else:
            cls = mocktargets.AsyncTarget if is_async else mocktargets.SyncTarget
            tstr = f'pbt.mocktargets.{cls.__name__}._request'
            clients = [cls(ep) for ep in ENDPOINTS]
        del mocktargets.REAL_CALLS[:]
        mocker = PjRpcMocker(target=tstr, passthrough=spec['passthrough'])
        model: Dict[str, Dict[str, List[Dict[str, Any]]]] = {}
        record: Dict[Tuple[str, str], List[Tuple[List[Any], Dict[str, Any]]]] = {}
        discs: List[Disc] = []
        classes = {f"target/{target}", 'passthrough/on' if spec['passthrough'] else 'passthrough/off'}
        serial = [0]
        evaluations = 0
        mutated_between_calls = False
        seen_call = False
        abandoned = False      # the history left the judged domain (see 'replies-share-a-patch-id'): nothing after that point is compared
        where = f"target={target} passthrough={spec['passthrough']} ops={jg.short(spec['ops'], 600)}"

        def expect_element(ep: str, m: str, params: Any, rid: Any) -> Dict[str, Any]:
            plist = model.get(ep, {}).get(m)
            if plist is None:
                classes.add('unpatched-method')
                return {'jsonrpc': '2.0', 'id': rid, 'error': {'code': -32601}}
            patch = plist.pop(0)
            if not patch['once']:
                plist.append(patch)
            else:
                classes.add('once')
            if not plist:
                del model[ep][m]
                if not model[ep]:
                    del model[ep]
            args = list(params) if isinstance(params, list) else []
            kwargs = dict(params) if isinstance(params, dict) else {}
            record.setdefault((ep, m), []).append((args, kwargs))
            p = patch['patch']
            # a request without an id (notification) has no id to carry: the reply has a null id or the id configured on the patch
            alt = {'id_alt': p['patch_id']} if rid is None and 'patch_id' in p else {}
            if p['kind'] == 'result':
                return {'jsonrpc': '2.0', 'id': rid, 'result': p['value'], **alt}
            if p['kind'] == 'error':
                e = {'code': p['code'], 'message': p['message']}
                if 'data' in p:
                    e['data'] = p['data']
                return {'jsonrpc': '2.0', 'id': rid, 'error': e, **alt}
            if p['kind'] == 'callback-raises':
                return {'raises': patch['serial']}
            return {'jsonrpc': '2.0', 'id': rid, 'result': {'cb': patch['serial'], 'args': args, 'kwargs': kwargs}}

        def cmp_response(exp: Dict[str, Any], got: Any, what: str) -> None:
            if not isinstance(got, dict) or not (jg.jeq(got.get('id', '<missing>'), exp['id']) or ('id_alt' in exp and jg.jeq(got.get('id', '<missing>'), exp['id_alt']))):
                discs.append(Disc("C20/reply-id", f"{what}: got {jg.short(got)} expected id {exp['id']!r} | {where}"))
                return
            if 'result' in exp:
                if 'result' not in got or not jg.jeq(got['result'], exp['result']):
                    discs.append(Disc("C20/reply-result", f"{what}: got {jg.short(got)} expected {jg.short(exp)} | {where}"))
            else:
                ge = got.get('error')
                if not isinstance(ge, dict) or ge.get('code') != exp['error']['code']:
                    discs.append(Disc("C20/reply-error", f"{what}: got {jg.short(got)} expected {jg.short(exp)} | {where}"))
                elif 'message' in exp['error'] and (ge.get('message') != exp['error']['message'] or ('data' in exp['error']) != ('data' in ge)
                                                    or ('data' in ge and not jg.jeq(ge['data'], exp['error']['data']))):
                    discs.append(Disc("C20/reply-error", f"{what}: got {jg.short(got)} expected {jg.short(exp)} | {where}"))

        # transport keyword arguments the client passes along with every request (request_args / per-call arguments)
        tkw: Dict[str, Any] = {} if target == 'requests' else {'timeout': 3, 'headers': {'x-trace': 'abc'}}

        def transport(ci: int, text: str) -> Tuple[Any, Optional[BaseException]]:
            try:
                r = clients[ci]._request(text, False, **tkw)
                if is_async:
                    r = hm.run_coro(r)
                return r, None
            except BaseException as e:  # noqa
                return None, e

        # a second mocker of the same process, patching ANOTHER client class (the aiohttp next to the requests mocker in one test): it has a
        # patch for the very endpoint / method this case uses - which must mean nothing to the mocker under test, and vice versa
        other_cls = mocktargets.SyncTarget if is_async else mocktargets.AsyncTarget
        decoy = PjRpcMocker(target=f'pbt.mocktargets.{other_cls.__name__}._request', passthrough=False)
        decoy.add(ENDPOINTS[0], METHODS[0], result='answer-of-the-other-mocker')
        decoy.add(ENDPOINTS[1], METHODS[1], result='answer-of-the-other-mocker')
        decoy.start()
        mocker.start()
        try:
            for op in spec['ops']:
                k = op[0]
                if k == 'add':
                    ep, m = ENDPOINTS[op[1]], METHODS[op[2]]
                    serial[0] += 1
                    mocker.add(ep, m, once=op[4], **make_patch(op[3], serial[0]))
                    model.setdefault(ep, {}).setdefault(m, []).append({'patch': op[3], 'once': op[4], 'serial': serial[0]})
                    classes.update({'op/add', f"patch/{op[3]['kind']}"})
                    if 'patch_id' in op[3]:
                        classes.add('patch/own-id')
                    if len(model[ep][m]) >= 2:
                        classes.add('round-robin>=2')
                elif k == 'replace':
                    ep, m = ENDPOINTS[op[1]], METHODS[op[2]]
                    plist = model.get(ep, {}).get(m)
                    if not plist:
                        continue
                    # an index into the patches of the pair, counted from the front (0, 1, ..) or from the back (-1 = the latest patch)
                    idx = op[3] % len(plist) if op[3] >= 0 else -((-op[3] - 1) % len(plist)) - 1
                    if idx < 0:
                        classes.add('op/replace/index-from-the-back')
                    serial[0] += 1
                    mocker.replace(ep, m, once=op[5], idx=idx, **make_patch(op[4], serial[0]))
                    plist[idx] = {'patch': op[4], 'once': op[5], 'serial': serial[0]}
                    classes.add('op/replace')
                    mutated_between_calls = mutated_between_calls or seen_call
                elif k == 'remove':
                    ep = ENDPOINTS[op[1]]
                    if op[2] is None:
                        if ep not in model:
                            continue
                        mocker.remove(ep)
                        del model[ep]
                        classes.add('op/remove-endpoint')
                    else:
                        m = METHODS[op[2]]
                        if m not in model.get(ep, {}):
                            continue
                        mocker.remove(ep, m)
                        del model[ep][m]
                        if not model[ep]:
                            del model[ep]
                        classes.add('op/remove-method')
                    mutated_between_calls = mutated_between_calls or seen_call
                elif k == 'reset':
                    mocker.reset()
                    model.clear()
                    record.clear()
                    classes.add('op/reset')
                elif k == 'notify':
                    # notifications are only judged on endpoints WITHOUT patches (passthrough / refusal as configured);
                    # how a patched endpoint answers a notification is outside the statement
                    ci = op[1]
                    ep = ENDPOINTS[ci]
                    if target == 'requests':
                        continue
                    d_: Dict[str, Any] = {'jsonrpc': '2.0', 'method': METHODS[op[2]]}
                    if op[3] is not None:
                        d_['params'] = op[3]
                    text = json.dumps(d_)
                    if ep in model:
                        # a notification to a PATCHED endpoint: how it is answered is outside the statement, but it is a call like any
                        # other - recorded, and it takes its turn in the rotation (a `once` patch is used up by it)
                        m_ = METHODS[op[2]]
                        if m_ in model[ep]:
                            if model[ep][m_][0]['patch']['kind'] == 'callback-raises':
                                continue
                            exp_n = expect_element(ep, m_, op[3], None)
                            classes.add('op/notify-patched-method')
                        else:
                            exp_n = None
                        try:
                            r_ = clients[ci]._request(text, True, **tkw)
                            if is_async:
                                r_ = hm.run_coro(r_)
                        except BaseException as e:  # noqa
                            if exp_n is not None:
                                discs.append(Disc(f"C20/notification-to-patched-method-raised/{type(e).__name__}", f"{e!r} for {text!r} | {where}"))
                            r_ = None
                        if exp_n is not None and r_:
                            # whatever the mocker hands back for a notification must be the patch's reply, not one made for another request
                            try:
                                cmp_response(exp_n, json.loads(r_), f"notification {text}")
                            except ValueError:
                                discs.append(Disc("C20/reply-not-json", f"{r_!r} | {where}"))
                        evaluations += 1
                        continue
                    classes.add('op/notify-unpatched-endpoint')
                    evaluations += 1
                    n_real = len(mocktargets.REAL_CALLS)
                    try:
                        r_ = clients[ci]._request(text, True, **tkw)
                        if is_async:
                            r_ = hm.run_coro(r_)
                        exc = None
                    except BaseException as e:  # noqa
                        r_, exc = None, e
                    if spec['passthrough']:
                        new = mocktargets.REAL_CALLS[n_real:]
                        if exc is not None or new != [(ep, text, True, tkw)]:
                            discs.append(Disc("C20/passthrough-notification", f"real transport calls {new} exc {exc!r} for notification {text!r} | {where}"))
                    elif not isinstance(exc, ConnectionRefusedError):
                        discs.append(Disc("C20/unpatched-endpoint-not-refused", f"got {r_!r} / {exc!r} for notification {text!r} | {where}"))
                elif k in ('call', 'batch'):
                    seen_call = True
                    ci = op[1]
                    ep = ENDPOINTS[ci]
                    if k == 'call':
                        els = [(METHODS[op[2]], op[3], op[4])]
                        if op[4] == 0 and not isinstance(op[4], bool):
                            classes.add('id/0')
                    else:
                        # a third item marks the element as a notification (no id member)
                        els = [(METHODS[x[0]], x[1], None if len(x) > 2 and x[2] else 100 + n) for n, x in enumerate(op[2])]
                        if any(rid is None for _, _, rid in els):
                            classes.add('batch/with-notification')
                    docs_ = []
                    for m, p, rid in els:
                        d: Dict[str, Any] = {'jsonrpc': '2.0', 'method': m, 'id': rid}
                        if k == 'batch' and rid is None:
                            del d['id']
                        if p is not None:
                            d['params'] = p
                        docs_.append(d)
                    text = json.dumps(docs_[0] if k == 'call' else docs_)
                    classes.add(f'op/{k}')
                    evaluations += 1
                    n_real = len(mocktargets.REAL_CALLS)
                    got_text, exc = transport(ci, text)
                    if ep not in model:
                        classes.add('unpatched-endpoint')
                        if spec['passthrough']:
                            new = mocktargets.REAL_CALLS[n_real:]
                            if exc is not None or new != [(ep, text, False, tkw)]:
                                discs.append(Disc("C20/passthrough", f"real transport calls {new} exc {exc!r} for {text!r} | {where}"))
                            elif json.loads(got_text).get('real-transport') != ep:
                                discs.append(Disc("C20/passthrough-reply", f"{got_text!r} | {where}"))
                        elif not isinstance(exc, ConnectionRefusedError):
                            discs.append(Disc("C20/unpatched-endpoint-not-refused", f"got {got_text!r} / {exc!r} for {text!r} | {where}"))
                        continue
                    expected = []
                    raising = None
                    for m, p, rid in els:
                        e_ = expect_element(ep, m, p, rid)
                        if 'raises' in e_:      # a user callback that raises: the exception propagates, later elements are not reached
                            raising = e_['raises']
                            classes.add('callback-raised')
                            break
                        expected.append(e_)
                    if raising is not None:
                        if not isinstance(exc, CallbackBoom) or exc.args != (raising,):
                            discs.append(Disc("C20/callback-exception-not-propagated", f"got {got_text!r} / {exc!r}, expected CallbackBoom({raising}) for {text!r} | {where}"))
                            break
                        continue
                    if exc is not None and k == 'batch':
                        # replies to id-less elements carry the id configured on the patch (if any): two of them - or one that equals a call's
                        # id - make the reply array one the library itself refuses (duplicate ids).  The statement says nothing about it.
                        eff = [e_.get('id_alt') if e_['id'] is None else e_['id'] for e_ in expected]
                        eff = [x for x in eff if x is not None]
                        if isinstance(exc, pjrpc.exc.IdentityError) and any(type(a) is type(b) and a == b for i, a in enumerate(eff) for b in eff[i + 1:]):
                            classes.add('batch/replies-share-a-patch-id-unjudged')
                            abandoned = True
                            break
                    if exc is not None:
                        discs.append(Disc(f"C20/call-raised/{type(exc).__name__}", f"{exc!r} for {text!r} | {where}"))
                        break
                    if len(mocktargets.REAL_CALLS) != n_real:
                        discs.append(Disc("C20/real-transport-called-for-patched-endpoint", f"{text!r} | {where}"))
                    try:
                        got = json.loads(got_text)
                    except Exception as e:
                        discs.append(Disc("C20/reply-not-json", f"{got_text!r}: {e} | {where}"))
                        break
                    if k == 'call':
                        cmp_response(expected[0], got, f"call {text}")
                    elif isinstance(got, list) and len(got) != len(expected) and len(got) == len([e for e in expected if e['id'] is not None]) and k == 'batch':
                        # replies for the calls only (nothing for the notifications of the batch) is element-wise too
                        for n, (e, g) in enumerate(zip([e for e in expected if e['id'] is not None], got)):
                            cmp_response(e, g, f"batch call {n} of {text}")
                    elif not isinstance(got, list) or len(got) != len(expected):
                        discs.append(Disc("C20/batch-shape", f"got {jg.short(got)} for {text!r} | {where}"))
                    else:
                        for n, (e, g) in enumerate(zip(expected, got)):
                            cmp_response(e, g, f"batch element {n} of {text}")
                if discs:
                    break
            if not discs and decoy.calls:
                discs.append(Disc("C20/calls-recorded-by-another-mocker", f"a second mocker that was never called reports {jg.short({k: list(v) for k, v in decoy.calls.items()}, 200)} | {where}"))
            # recorded calls
            if not discs and not abandoned:
                got_calls = {}
                for ep, per in mocker.calls.items():
                    for (ver, m), stub in per.items():
                        got_calls[(ep, m)] = [(list(c.args), dict(c.kwargs)) for c in stub.call_args_list]
                        if ver != '2.0':
                            discs.append(Disc("C20/calls-version-key", f"{ver!r} | {where}"))
                want = {k2: v for k2, v in record.items() if v}
                same = set(got_calls) == set(want) and all(
                    len(got_calls[k2]) == len(want[k2]) and all(jg.jeq(a[0], b[0]) and jg.jeq(a[1], b[1]) for a, b in zip(got_calls[k2], want[k2])) for k2 in want)
                if not same:
                    discs.append(Disc("C20/recorded-calls", f"mocker.calls {jg.short({str(k2): v for k2, v in got_calls.items()}, 400)} expected "
                                                            f"{jg.short({str(k2): v for k2, v in want.items()}, 400)} | {where}"))
        finally:
            mocker.stop()
            decoy.stop()
        nontrivial = ('round-robin>=2' in classes and 'once' in classes) or mutated_between_calls or 'op/batch' in classes
        return Outcome(discs, nontrivial, sorted(classes), evaluations=max(evaluations, 1))


CHECK = C20()

MANIFEST = dict(
    technique="model-based property testing (Hypothesis-generated operation/call histories against a list-of-patches model), observing the patched transport's reply text and mocker.calls",
    level_text=(
        "Generated histories of add / replace / remove / reset / call / batch-call over two endpoints and three methods are applied to a started "
        "PjRpcMocker (sync and async harness targets, plus the shipped requests shortcut) and to a model of rotating patch lists; after every "
        "call the reply text is compared with the model's answer (id, result / error / callback value, -32601, passthrough / refusal) and at the "
        "end mocker.calls is compared with the model's record. Sampling over histories of <= 8 steps."
    ),
    level_note="trusts the list model; notifications are outside the property; operation lists drawn from strategies stand in for a rule-based state machine",
)
