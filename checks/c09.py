"""
C09 - retries are bounded (at most n+1 sends), happen exactly after listed codes / listed exception types (or
subclasses) while attempts remain, pause by the configured backoff (no pause before the first or after the last send),
and hand the caller the last attempt's outcome unchanged; per-request strategy replaces the client-wide one; sync == async.
"""

import itertools
import json
from typing import Any, Dict, List, Optional

from hypothesis import strategies as st

import pjrpc
from pjrpc.common import UNSET

from pbt import clientharness as ch, jsongen as jg
from pbt.runner import Check, Disc, Outcome

LISTED, LISTED2, UNLISTED = 2001, -32000, 2002
LETTERS = ['ok', 'listed-code', 'unlisted-code', 'batch-listed', 'listed-exc', 'sub-exc', 'unlisted-exc']
LETTER = {
    'ok': {'kind': 'ok'}, 'listed-code': {'kind': 'code', 'code': LISTED}, 'unlisted-code': {'kind': 'code', 'code': UNLISTED},
    'batch-listed': {'kind': 'batch_code', 'code': LISTED}, 'listed-exc': {'kind': 'exc', 'exc': 'ExcE'},
    'sub-exc': {'kind': 'exc', 'exc': 'ExcE2'}, 'unlisted-exc': {'kind': 'exc', 'exc': 'ExcU'},
}
BACKOFFS = [
    {'kind': 'periodic', 'interval': 1.0}, {'kind': 'periodic', 'interval': 0.25},
    {'kind': 'exponential', 'base': 1.0, 'factor': 2.0, 'max': None}, {'kind': 'exponential', 'base': 0.5, 'factor': 3.0, 'max': 4.0},
    {'kind': 'exponential', 'base': 2.0, 'factor': 2.0, 'max': 1.5},   # cap below the first delay
    {'kind': 'exponential', 'base': 8.0, 'factor': 0.5, 'max': 5.0},   # decaying delays: capped first, below the cap later
    {'kind': 'exponential', 'base': 1.0, 'factor': 1.0, 'max': 1.25},  # constant base: the jitter alone decides which delays hit the cap
    {'kind': 'fibonacci', 'multiplier': 1.0, 'max': 'default'}, {'kind': 'fibonacci', 'multiplier': 0.25, 'max': 'default'},   # cap left to its documented default
    {'kind': 'exponential', 'base': 1.0, 'factor': 2.0, 'max': 'default'},
    {'kind': 'fibonacci', 'multiplier': 1.0, 'max': 100.0}, {'kind': 'fibonacci', 'multiplier': 0.5, 'max': 1.0},
    {'kind': 'fibonacci', 'multiplier': 2.0, 'max': None}, {'kind': 'fibonacci', 'multiplier': 3.0, 'max': 2.0},
]
JITTERS = [[], [0.0], [0.125], [0.25, -0.125, 0.5], [1.0, 2.0]]
CODESETS = [None, [], [LISTED], [LISTED, LISTED2]]
EXCSETS = [None, [], ['ExcE'], ['ExcE', 'ExcF'], ['Exception'], ['ValueError', 'ExcF'], ['LibBaseError'], ['ExcE', 'LibDeserializationError']]
PLACEMENTS = ['client', 'request', 'request-none', 'none']
KINDS = ['single', 'batch', 'notification']


def std_strategy(n: int, i: int) -> Dict[str, Any]:
    return {'attempts': n, 'codes': CODESETS[2 + i % 2], 'exceptions': EXCSETS[2 + (i // 2) % 2],
            'backoff': BACKOFFS[i % len(BACKOFFS)], 'jitter': JITTERS[i % len(JITTERS)]}


class C09(Check):
    pid = 'C09'
    level = 'fault_enumeration'
    quick_examples = 2500
    thorough_examples = 25000
    rule = (
        "[drawn in addition since rounds 13-15: listed exception sets and transport failures incl. Exception, ValueError and the library's own BaseError / DeserializationError / IdentityError] "
        "cases: (a) enumerated: every outcome word of length n+2 over {success, listed code, unlisted code, batch-level listed error, listed "
        "exception, subclass of a listed exception, unlisted exception} for n in 0..2 (quick) / 0..3 (thorough) attempts x sync / async "
        "client, rotating over request kind {single, batch, notification}, strategy placement {client-wide, per-request, per-request None "
        "overriding a client-wide one, none}, 14 backoff configurations (periodic / exponential / Fibonacci, caps below the first delay, decaying factors, "
        "max None) and 5 jitter sequences; (b) Hypothesis: attempts 0..4, codes / exceptions sets {None, empty, one, several}, backoff "
        "parameters from short decimals, drawn jitter sequences, drawn outcome words. Oracle: reference retry model -> number of transport "
        "calls, the recorded time.sleep / asyncio.sleep arguments (isclose; none before the first or after the last send), the returned "
        "response carries the LAST attempt's payload, a raised exception is the scripted instance (identity); the same request sent again through the same client and strategy objects shows the same sends and sleeps. non-trivial = at least one "
        "retry happened, or a retryable outcome was refused because attempts were exhausted; distinct = distinct spec."
    )
    assumptions = [
        "time.sleep / asyncio.sleep as referenced by pjrpc.client.retry are replaced by recorders (nothing sleeps)",
        "float delays compared with math.isclose(rel_tol=1e-9, abs_tol=1e-12)",
        "Fibonacci sequence 1, 2, 3, 5, 8 ... as pinned by the repository's test_retry_strategies",
        "an element-level error inside a batch array is not an error of the batch response (only batch-level error objects are)",
    ]
    trusted_base = ['retry model in pbt/clientharness.py']
    required_classes = ['kind/single', 'kind/batch', 'kind/notification', 'placement/client', 'placement/request', 'placement/request-none',
                        'placement/none', 'backoff/periodic', 'backoff/exponential', 'backoff/fibonacci', 'retried', 'exhausted',
                        'client/sync', 'client/async', 'final/exception', 'final/response', 'attempts/0', 'jitter/nonzero', 'cap/hit',
                        'repeat/second-request-retried-too']

    # ---- generation ------------------------------------------------------------------------------------------

    def _words(self, maxn: int, shard: int = 0, nshards: int = 1):
        i = 0
        for n in range(0, maxn + 1):
            for word in itertools.product(LETTERS, repeat=n + 2):
                for client in ('sync', 'async'):
                    i += 1
                    if i % nshards != shard:
                        continue
                    yield {'client': client, 'request': KINDS[i % 3], 'placement': PLACEMENTS[(i // 3) % 4],
                           'strategy': std_strategy(n, i), 'outcomes': [LETTER[w] for w in word]}

    def enumerate(self, tier: str):
        return self._words(2) if tier == 'quick' else None

    def enum_shards(self, tier: str) -> int:
        return 16

    def enumerate_shard(self, tier: str, shard: int, nshards: int):
        return self._words(3, shard, nshards)

    def exhaustive_note(self, tier: str) -> str:
        n = 2 if tier == 'quick' else 3
        return f"all outcome words of length n+2 over the 7-letter alphabet for n = 0..{n} x sync/async (request kind, placement, backoff and jitter rotate)"

    def strategy(self, tier: str):
        dec = st.sampled_from([0.0, 0.125, 0.25, 0.5, 1.0, 1.5, 2.0, 3.0, 10.0])
        s_backoff = st.one_of(
            st.sampled_from(BACKOFFS),
            st.builds(lambda i: {'kind': 'periodic', 'interval': i}, dec),
            st.builds(lambda b, f, m: {'kind': 'exponential', 'base': b, 'factor': f, 'max': m}, dec, dec, st.one_of(st.none(), dec)),
            st.builds(lambda mu, m: {'kind': 'fibonacci', 'multiplier': mu, 'max': m}, dec, st.one_of(st.none(), dec)),
        )
        s_jit = st.one_of(st.sampled_from(JITTERS), st.lists(st.sampled_from([0.0, 0.125, -0.125, 0.5, 1.0, 7.0]), max_size=4))
        s_strategy = st.builds(lambda n, c, e, b, j: {'attempts': n, 'codes': c, 'exceptions': e, 'backoff': b, 'jitter': j},
                               st.integers(0, 4), st.sampled_from(CODESETS), st.sampled_from(EXCSETS), s_backoff, s_jit)
        s_out = st.one_of(
            st.sampled_from([LETTER[w] for w in LETTERS]),
            st.builds(lambda c: {'kind': 'code', 'code': c}, st.sampled_from([LISTED, LISTED2, UNLISTED, 0, -32603])),
            st.builds(lambda c: {'kind': 'batch_code', 'code': c}, st.sampled_from([LISTED, LISTED2, UNLISTED])),
            st.builds(lambda e: {'kind': 'exc', 'exc': e}, st.sampled_from(['ExcE', 'ExcE2', 'ExcF', 'ExcU', 'TimeoutError', 'LibDeserializationError', 'LibIdentityError', 'LibBaseError', 'ValueError'])),
        )
        return st.builds(
            lambda c, r, p, s, o: {'client': c, 'request': r, 'placement': p, 'strategy': s, 'outcomes': o},
            st.sampled_from(['sync', 'async']), st.sampled_from(KINDS), st.sampled_from(PLACEMENTS), s_strategy,
            st.lists(s_out, min_size=6, max_size=6),
        )

    def corpus(self):
        s = std_strategy(2, 0)
        return [
            {'client': 'sync', 'request': 'notification', 'placement': 'client', 'strategy': s, 'outcomes': [LETTER['ok']] * 4},
            {'client': 'async', 'request': 'notification', 'placement': 'client', 'strategy': s, 'outcomes': [LETTER['listed-exc'], LETTER['ok'], LETTER['ok'], LETTER['ok']]},
            {'client': 'sync', 'request': 'single', 'placement': 'client', 'strategy': s, 'outcomes': [LETTER['listed-code']] * 4},
            {'client': 'async', 'request': 'batch', 'placement': 'request', 'strategy': s, 'outcomes': [LETTER['batch-listed'], LETTER['sub-exc'], LETTER['ok'], LETTER['ok']]},
        ]

    # ---- run ---------------------------------------------------------------------------------------------------

    def run_case(self, spec: Any) -> Outcome:
        kind, rkind, placement = spec['client'], spec['request'], spec['placement']
        s = spec['strategy']
        outcomes = [dict(o) for o in spec['outcomes']]
        for o in outcomes:
            if rkind == 'single' and o['kind'] == 'batch_code':
                o['kind'] = 'code'
            if rkind == 'notification' and o['kind'] in ('code', 'batch_code'):
                o['kind'] = 'ok'
        effective = s if placement in ('client', 'request') else None
        sends, sleeps, final_idx = ch.retry_model(effective, outcomes, rkind)
        raised_instances: Dict[int, BaseException] = {}

        def transport(text: str, is_notification: bool, k: int):
            o = outcomes[min(k, len(outcomes) - 1)]
            if o['kind'] == 'exc':
                e = ch.EXC[o['exc']](f"attempt {k}")
                raised_instances[k] = e
                raise e
            if is_notification:
                return None
            doc = json.loads(text)
            if isinstance(doc, list):
                if o['kind'] == 'batch_code':
                    return json.dumps({'jsonrpc': '2.0', 'id': None, 'error': {'code': o['code'], 'message': 'e', 'data': {'attempt': k}}})
                out = []
                for n, el in enumerate(x for x in doc if 'id' in x):
                    if o['kind'] == 'code' and n == 0:
                        out.append({'jsonrpc': '2.0', 'id': el['id'], 'error': {'code': o['code'], 'message': 'e', 'data': {'attempt': k}}})
                    else:
                        out.append({'jsonrpc': '2.0', 'id': el['id'], 'result': {'attempt': k}})
                return json.dumps(out)
            if o['kind'] == 'code':
                return json.dumps({'jsonrpc': '2.0', 'id': doc['id'], 'error': {'code': o['code'], 'message': 'e', 'data': {'attempt': k}}})
            return json.dumps({'jsonrpc': '2.0', 'id': doc['id'], 'result': {'attempt': k}})

        other = {'attempts': 3, 'codes': [UNLISTED, LISTED], 'exceptions': ['ExcU', 'ExcE'], 'backoff': {'kind': 'periodic', 'interval': 9.0}, 'jitter': []}
        client_strategy = {'client': s, 'request': other, 'request-none': s, 'none': None}[placement]
        kwargs: Dict[str, Any] = {}
        if client_strategy is not None:
            kwargs['retry_strategy'] = ch.build_strategy(client_strategy)
        client = ch.make_client(kind, transport, **kwargs)
        send_kw: Dict[str, Any] = {}
        if placement == 'request':
            send_kw['_retry_strategy'] = ch.build_strategy(s)
        elif placement == 'request-none':
            send_kw['_retry_strategy'] = None

        if rkind == 'single':
            req = pjrpc.Request('m', [1], id=1)
            fn = lambda: client.send(req, **send_kw)  # noqa: E731
        elif rkind == 'notification':
            req = pjrpc.Request('m', [1])
            fn = lambda: client.send(req, **send_kw)  # noqa: E731
        else:
            breq = pjrpc.BatchRequest(pjrpc.Request('m', [1], id=1), pjrpc.Request('n', [2], id=2), pjrpc.Request('note', [3]))
            fn = lambda: client.batch.send(breq, **send_kw)  # noqa: E731

        discs: List[Disc] = []
        where = f"client={kind} request={rkind} placement={placement} strategy={jg.short(s, 250)} outcomes={[o.get('code', o.get('exc', o['kind'])) for o in outcomes]}"
        with ch.captured_sleeps() as got_sleeps:
            try:
                value, exc = ch.call(kind, fn), None
            except BaseException as e:  # noqa
                value, exc = None, e
        n_sent = len(client.sent)
        if n_sent != sends:
            clause = 'too-many-sends' if n_sent > sends else 'too-few-sends'
            discs.append(Disc(f"C09/{clause}", f"{n_sent} transport calls, model {sends} | {where}"))
        if len(got_sleeps) != len(sleeps):
            discs.append(Disc("C09/sleep-count", f"sleeps {got_sleeps} model {sleeps} | {where}"))
        elif not all(ch.close(a, b) for a, b in zip(got_sleeps, sleeps)):
            discs.append(Disc(f"C09/sleep-values/{s['backoff']['kind']}", f"sleeps {got_sleeps} model {sleeps} | {where}"))
        final = outcomes[min(final_idx, len(outcomes) - 1)]
        if n_sent == sends:
            if final['kind'] == 'exc':
                want = raised_instances.get(final_idx)
                if exc is None:
                    discs.append(Disc("C09/final-exception-swallowed", f"returned {value!r} | {where}"))
                elif exc is not want:
                    discs.append(Disc("C09/final-exception-not-the-raised-one", f"got {exc!r} want {want!r} | {where}"))
            elif exc is not None:
                discs.append(Disc(f"C09/unexpected-exception/{type(exc).__name__}", f"{exc!r} | {where}"))
            elif rkind == 'notification':
                if value is not None:
                    discs.append(Disc("C09/notification-returned-something", f"{value!r} | {where}"))
            else:
                attempt = self._attempt_of(value, final)
                if attempt != final_idx:
                    discs.append(Disc("C09/returned-response-is-not-the-last-attempt", f"response of attempt {attempt}, expected {final_idx}: {value!r} | {where}"))
        # the same request once more through the SAME client and strategy objects: a strategy is a configuration, not a consumable
        # (only for constant jitter: a cyclic jitter sequence legitimately continues where the first request left it)
        repeated = False
        if not discs and len(s.get('jitter') or []) <= 1:
            repeated = True
            del client.sent[:]
            raised_instances.clear()
            with ch.captured_sleeps() as again:
                try:
                    ch.call(kind, fn)
                except BaseException:  # noqa
                    pass
            if len(client.sent) != sends or len(again) != len(sleeps) or not all(ch.close(a, b) for a, b in zip(again, sleeps)):
                discs.append(Disc("C09/second-request-through-the-same-strategy-differs",
                                  f"first request: {sends} sends, sleeps {list(got_sleeps)}; second: {len(client.sent)} sends, sleeps {list(again)} | {where}"))
        retried = sends > 1
        exhausted = ch.outcome_retryable(final, effective, rkind)
        classes = [f"kind/{rkind}", f"placement/{placement}", f"backoff/{s['backoff']['kind']}", f"client/{kind}", f"attempts/{min(s['attempts'], 4)}",
                   'final/exception' if final['kind'] == 'exc' else 'final/response']
        if retried:
            classes.append('retried')
            if repeated:
                classes.append('repeat/second-request-retried-too')
        if exhausted:
            classes.append('exhausted')
        if retried and any(j != 0 for j in (s.get('jitter') or [])):
            classes.append('jitter/nonzero')
        if retried and isinstance(s['backoff'].get('max'), (int, float)) and any(ch.close(x, s['backoff']['max']) for x in sleeps):
            classes.append('cap/hit')
        return Outcome(discs, retried or exhausted, classes)

    @staticmethod
    def _attempt_of(value: Any, final: Dict[str, Any]) -> Optional[int]:
        try:
            if isinstance(value, pjrpc.BatchResponse):
                if value.is_error:
                    return value.error.data['attempt']
                r = value[0]
            else:
                r = value
            if r.is_error:
                return r.error.data['attempt']
            return r.result['attempt']
        except Exception:
            return None


CHECK = C09()

MANIFEST = dict(
    technique="fault-sequence enumeration (all outcome words) plus property-based sampling (Hypothesis) of retry strategies against a reference retry model, with sleeps captured",
    level_text=(
        "Every outcome word over the 7-letter alphabet for up to 2 (quick) / 3 (thorough) attempts is scripted into the transport of a sync and "
        "an async client and compared with a ten-line reference model: number of sends, the exact sleep arguments, and the identity of the final "
        "outcome. Strategy parameters, placements and jitter are enumerated by rotation and sampled by Hypothesis up to 4 attempts."
    ),
    level_note="trusts the retry model in pbt/clientharness.py; sleeps are intercepted at pjrpc.client.retry's time / asyncio references",
)
