"""
C08 - the client matches responses to requests by id and rejects mismatches (strict mode); accepted responses are
linked to their requests and results read by position / as a tuple follow the order the calls were made; server errors
are raised; a batch-level error is raised for the batch.
"""

import itertools
import json
from typing import Any, Dict, List, Optional, Tuple

from hypothesis import strategies as st

import pjrpc
from pjrpc.common.exceptions import DeserializationError, IdentityError, JsonRpcError

from pbt import clientharness as ch, errors as he, jsongen as jg
from pbt.runner import Check, Disc, Outcome

ID_SETS = [[1, 2, 3, 4], [0, 1, 2, 3], ['a', 'b', 'c', 'd'], [1, '1', 2, '2'], ['', 0, '0', -1], [10**30, 'x', 5, '5']]
BODIES = {
    'batch-error': {'jsonrpc': '2.0', 'id': None, 'error': {'code': -32600, 'message': 'Invalid Request', 'data': 'x'}},
    'batch-error-custom': {'jsonrpc': '2.0', 'id': None, 'error': {'code': 2001, 'message': 'custom', 'data': None}},
    'single-response': {'jsonrpc': '2.0', 'id': 1, 'result': 1},
    'null': None, 'number': 7, 'string': 'x', 'empty-object': {}, 'object': {'foo': 1}, 'array-of-scalars': [1, 2],
    'array-with-bad-element': [{'jsonrpc': '2.0', 'id': 1}], 'wrong-version': [{'jsonrpc': '1.0', 'id': 1, 'result': 1}],
    'batch-error-without-version': {'id': None, 'error': {'code': -32600, 'message': 'Invalid Request'}},
    'batch-error-wrong-version': {'jsonrpc': '1.0', 'id': None, 'error': {'code': -32600, 'message': 'Invalid Request'}},
    'element-with-null-error': [{'jsonrpc': '2.0', 'id': 1, 'result': 5, 'error': None}],
    'array-with-null-element': [None, {'jsonrpc': '2.0', 'id': 1, 'result': 1}],
}


def typed_eq(a: Any, b: Any) -> bool:
    return type(a) is type(b) and a == b


def apply_program(responses: List[Dict[str, Any]], program: List[List[Any]]) -> Any:
    body: Any = [dict(r) for r in responses]
    for op in program:
        k = op[0]
        if k == 'replace-body':
            return BODIES[op[1]]
        n = len(body)
        if k == 'perm':
            order = [i for i in op[1] if i < n]
            order += [i for i in range(n) if i not in order]
            body = [body[i] for i in order]
        elif n == 0:
            continue
        elif k == 'omit':
            del body[op[1] % n]
        elif k == 'dup':
            body.append(dict(body[op[1] % n]))
        elif k == 'add':
            body.insert(op[2] % (n + 1), {'jsonrpc': '2.0', 'id': op[1], 'result': 'unrequested'})
        elif k == 'retype':
            el = body[op[1] % n]
            i = el['id']
            t = op[2]
            if i is None or isinstance(i, (bool, float)):
                continue
            if t == 'swap':
                el['id'] = str(i) if isinstance(i, int) else (int(i) if i.lstrip('-').isdigit() else i + '_')
            elif t == 'bool':
                el['id'] = True
            else:
                el['id'] = 1.0
        elif k == 'null':
            body[op[1] % n]['id'] = None
        elif k == 'add-null-error':
            # the server reports an error it cannot attribute to a call (an element it could not parse): id null
            body.insert(op[1] % (n + 1), {'jsonrpc': '2.0', 'id': None, 'error': {'code': -32600, 'message': 'Invalid Request', 'data': 'element 7'}})
    return body


def judge_batch(call_ids: List[Any], body: Any) -> Tuple[str, Any]:
    """reference relation for strict mode -> ('deser'|'identity'|'batch-error'|'ok', payload)"""
    if isinstance(body, dict):
        if body.get('jsonrpc') == '2.0' and body.get('id') is None and 'error' in body and 'result' not in body:
            return 'batch-error', body['error']
        return 'deser', None
    if not isinstance(body, list):
        return 'deser', None
    from pbt import wellformed as wf
    for el in body:
        if wf.response_problems(el):
            return 'deser', None
    ids = [el.get('id') for el in body if el.get('id') is not None]
    for i, a in enumerate(ids):
        if any(typed_eq(a, b) for b in ids[i + 1:]):
            return 'identity', 'repeated id'
    for c in call_ids:
        if not any(typed_eq(c, i) for i in ids):
            return 'identity', 'missing response'
    for i in ids:
        if not any(typed_eq(c, i) for c in call_ids):
            return 'identity', 'unrequested response'
    if any(el.get('id') is None for el in body):
        # every call is answered AND there is an extra response without id: matching ignores null ids; whether that
        # counts as "a response no call asked for" is not settled by the property - left undecided
        return 'undecided', None
    ordered = [next(el for el in body if typed_eq(el.get('id'), c)) for c in call_ids]
    return 'ok', ordered


class C08(Check):
    pid = 'C08'
    level = 'fault_enumeration'
    quick_examples = 2000
    thorough_examples = 20000
    rule = (
        "cases: batches of 1..4 calls (+ 0..2 notifications) with ids from six id sets (integers incl. 0, strings incl. '', numeric-looking "
        "strings next to integers, negatives, 10^30); the correct response array (every success / error mix) is perturbed by a response "
        "program: (a) enumerated in both tiers for n <= 3 (thorough: n <= 4): every permutation x every single fault {none, omit i, "
        "duplicate i, add an unrequested id, add an error object with a null id, retype id i (1<->'1', true, 1.0), null id i} and every whole-body replacement (batch-level "
        "error objects, a single response object, null / number / string / {} / arrays of non-responses); (b) Hypothesis: up to 3 stacked "
        "operations; single calls: id relation {equal, different, null, type-confused} x body shape. x strict on/off x sync/async, read via "
        "batch.send (positional access, .related, .result), via batch.add(...).call() [round 16: also with requests the caller keeps no reference to - the accepted responses must still lead to them] and - for all-success batches - via a second round trip of the same batch object after two more calls were added (answered in reverse order). Oracle: reference relation - not a response "
        "(array) => DeserializationError; repeated / missing / unrequested / type-confused id => IdentityError; batch-level error => raised "
        "by call()/.result; else every response is linked to the request with its id and position k / tuple element k belongs to call k, "
        "the first failing call in request order is the exception raised (class registered for the code). non-trivial = the program is not "
        "the identity; distinct = distinct spec."
    )
    assumptions = [
        "non-strict mode: only programs without faults (pure permutations) are judged for order and error raising; for faulty bodies a non-strict client accepts, only the linking invariant is judged (a linked response has its request's id; a requested id present once is linked to that request)",
        "an added response with a null id is not generated (null ids are ignored by matching)",
    ]
    trusted_base = ['reference relation in checks/c08.py', 'pbt/wellformed.py']
    required_classes = ['verdict/ok', 'verdict/identity', 'verdict/deser', 'verdict/batch-error', 'op/perm', 'op/omit', 'op/dup', 'op/add',
                        'op/retype', 'op/null', 'op/replace-body', 'single/equal', 'single/different', 'single/null', 'single/type-confused',
                        'strict/on', 'strict/off', 'client/sync', 'client/async', 'reordered-ok', 'error-mix',
                        'non-strict/faulty-body-accepted', 'server-error-without-id-next-to-all-answers', 'batch-object/second-round-trip']

    # ---- generation ------------------------------------------------------------------------------------

    def _programs(self, n: int):
        faults: List[Optional[List[Any]]] = [None]
        for i in range(n):
            faults += [['omit', i], ['dup', i], ['null', i], ['retype', i, 'swap'], ['retype', i, 'bool'], ['retype', i, 'float']]
        faults += [['add', 'zz', 0], ['add', 99, n], ['add-null-error', 0], ['add-null-error', n]]
        for perm in itertools.permutations(range(n)):
            for f in faults:
                yield [['perm', list(perm)]] + ([f] if f else [])
        for b in sorted(BODIES):
            yield [['replace-body', b]]

    def _enum(self, maxn: int, shard: int = 0, nshards: int = 1):
        k = 0
        for n in range(1, maxn + 1):
            for mix in itertools.product(['ok', 'error'], repeat=n):
                for prog in self._programs(n):
                    k += 1
                    if k % nshards != shard:
                        continue
                    ids = ID_SETS[k % len(ID_SETS)][:n]
                    yield {'mode': 'batch', 'client': ['sync', 'async'][k % 2], 'strict': k % 7 != 0,
                           'calls': [{'id': i, 'outcome': o} for i, o in zip(ids, mix)], 'notifications': k % 3, 'program': prog}

    def enumerate(self, tier: str):
        return self._enum(3) if tier == 'quick' else None

    def enum_shards(self, tier: str) -> int:
        return 16

    def enumerate_shard(self, tier: str, shard: int, nshards: int):
        return self._enum(4, shard, nshards)

    def exhaustive_note(self, tier: str) -> str:
        n = 3 if tier == 'quick' else 4
        return f"all success/error mixes x all permutations x all single-fault programs and whole-body replacements for batches of 1..{n} calls (id set, client kind, strictness rotate)"

    def strategy(self, tier: str):
        s_op = st.one_of(
            st.builds(lambda p: ['perm', p], st.permutations([0, 1, 2, 3])),
            st.builds(lambda i: ['omit', i], st.integers(0, 3)), st.builds(lambda i: ['dup', i], st.integers(0, 3)),
            st.builds(lambda i, p: ['add', i, p], st.sampled_from(['zz', 99, '1', 0, -7]), st.integers(0, 4)),
            st.builds(lambda i, t: ['retype', i, t], st.integers(0, 3), st.sampled_from(['swap', 'swap', 'bool', 'float'])),
            st.builds(lambda i: ['null', i], st.integers(0, 3)), st.builds(lambda p: ['add-null-error', p], st.integers(0, 4)),
            st.builds(lambda b: ['replace-body', b], st.sampled_from(sorted(BODIES))),
        )
        batch = st.builds(
            lambda c, s, ids, mix, n, prog: {'mode': 'batch', 'client': c, 'strict': s,
                                             'calls': [{'id': i, 'outcome': o} for i, o in zip(ids, mix)], 'notifications': n, 'program': prog},
            st.sampled_from(['sync', 'async']), st.sampled_from([True, True, True, False]),
            st.one_of(st.sampled_from(ID_SETS), st.lists(jg.cheap_call_id(), min_size=1, max_size=4, unique_by=lambda x: (type(x).__name__, x))),
            st.lists(st.sampled_from(['ok', 'ok', 'error']), min_size=4, max_size=4), st.integers(0, 2), st.lists(s_op, max_size=3),
        )
        single = st.builds(
            lambda c, s, i, rel, shape: {'mode': 'single', 'client': c, 'strict': s, 'id': i, 'relation': rel, 'shape': shape},
            st.sampled_from(['sync', 'async']), st.booleans(), jg.cheap_call_id(),
            st.sampled_from(['equal', 'equal', 'different', 'null', 'type-confused', 'bool', 'float']),
            st.sampled_from(['result', 'result-null', 'error', 'error-typed', 'not-response', 'array', 'scalar', 'both', 'result-and-null-error', 'error-without-message']),
        )
        return jg.weighted(batch, batch, single)

    def corpus(self):
        return [
            {'mode': 'batch', 'client': 'sync', 'strict': True, 'calls': [{'id': 1, 'outcome': 'ok'}, {'id': 2, 'outcome': 'ok'}, {'id': 3, 'outcome': 'ok'}],
             'notifications': 0, 'program': [['perm', [2, 1, 0]]]},
            {'mode': 'batch', 'client': 'async', 'strict': True, 'calls': [{'id': 1, 'outcome': 'error'}, {'id': 2, 'outcome': 'error'}],
             'notifications': 1, 'program': [['perm', [1, 0]]]},
            {'mode': 'batch', 'client': 'sync', 'strict': True, 'calls': [{'id': 1, 'outcome': 'ok'}], 'notifications': 0, 'program': [['retype', 0, 'bool']]},
            {'mode': 'single', 'client': 'sync', 'strict': True, 'id': 1, 'relation': 'bool', 'shape': 'result'},
            {'mode': 'single', 'client': 'sync', 'strict': True, 'id': 1, 'relation': 'equal', 'shape': 'both'},
            {'mode': 'single', 'client': 'sync', 'strict': True, 'id': 1, 'relation': 'equal', 'shape': 'result-and-null-error'},
            {'mode': 'single', 'client': 'async', 'strict': False, 'id': 1, 'relation': 'equal', 'shape': 'result-and-null-error'},
            {'mode': 'single', 'client': 'sync', 'strict': True, 'id': 1, 'relation': 'equal', 'shape': 'error-without-message'},
        ]

    # ---- run -------------------------------------------------------------------------------------------

    def run_case(self, spec: Any) -> Outcome:
        return self._run_batch(spec) if spec['mode'] == 'batch' else self._run_single(spec)

    @staticmethod
    def _response_for(call: Dict[str, Any], pos: int) -> Dict[str, Any]:
        if call['outcome'] == 'ok':
            return {'jsonrpc': '2.0', 'id': call['id'], 'result': {'call': pos}}
        code = [2001, 7, -32601][pos % 3]
        return {'jsonrpc': '2.0', 'id': call['id'], 'error': {'code': code, 'message': f'err{pos}', 'data': {'call': pos}}}

    def _run_batch(self, spec: Any) -> Outcome:
        kind, strict = spec['client'], spec['strict']
        calls = spec['calls']
        call_ids = [c['id'] for c in calls]
        correct = [self._response_for(c, i) for i, c in enumerate(calls)]
        body = apply_program(correct, spec['program'])
        text = json.dumps(body)
        verdict, payload = judge_batch(call_ids, body)
        identity_program = body == correct
        pure_perm = isinstance(body, list) and sorted(map(json.dumps, body)) == sorted(map(json.dumps, correct))
        judged = (strict or pure_perm) and verdict != 'undecided'
        where = f"client={kind} strict={strict} calls={jg.short(calls)} notifications={spec['notifications']} program={spec['program']} body={text[:300]}"
        discs: List[Disc] = []
        classes_extra: List[str] = []

        reply = [text]

        def transport(t: str, is_notification: bool, k: int):
            return reply[0]

        # (1) hand-built BatchRequest through batch.send
        client = ch.make_client(kind, transport, strict=strict)
        reqs = [pjrpc.Request(f'm{i}', [i], id=c['id']) for i, c in enumerate(calls)]
        notes = [pjrpc.Request('note', [i]) for i in range(spec['notifications'])]
        allreqs = []
        for i, r in enumerate(reqs):      # interleave notifications between the calls
            allreqs.append(r)
            if i < len(notes):
                allreqs.append(notes[i])
        allreqs += notes[len(reqs):]
        breq = pjrpc.BatchRequest(*allreqs)
        try:
            resp, exc = ch.call(kind, lambda: client.batch.send(breq)), None
        except Exception as e:
            resp, exc = None, e
        if judged:
            discs += self._judge_send(verdict, payload, resp, exc, reqs, calls, where)
        elif verdict == 'undecided' and exc is None and resp is not None and resp.is_success and len(resp) >= len(calls):
            # an extra response without id besides all requested ones: whether it must be rejected is left open, but IF it is
            # accepted, position k still belongs to call k (the extra element cannot displace a call's response)
            for k, req in enumerate(reqs):
                if not typed_eq(resp[k].id, req.id):
                    discs.append(Disc("C08/send/position-not-in-call-order", f"position {k} holds id {resp[k].id!r}, call {k} has id {req.id!r} (extra null-id element present) | {where}"))
                    break

        # whatever the body: what escapes send() is a library exception (identity / deserialisation / protocol error), never a crash
        if exc is not None and not isinstance(exc, pjrpc.exc.BaseError):
            discs.append(Disc(f"C08/send/non-library-exception/{type(exc).__name__}", f"{exc!r} | {where}"))
        # a server error without id next to a complete set of answers: whether the client refuses the array is left open, but the error
        # is a server error and must reach the caller as an exception - it cannot silently disappear
        null_errors = [el for el in body if isinstance(el, dict) and el.get('id') is None and 'error' in el] if isinstance(body, list) else []
        if verdict == 'undecided' and null_errors:
            classes_extra.append('server-error-without-id-next-to-all-answers')
            if exc is None and resp is not None:
                try:
                    got = resp.result
                    discs.append(Disc("C08/send/server-error-without-id-swallowed", f"result {got!r} | {where}"))
                except Exception:
                    pass

        # whatever the mode and the faults: a response the client ACCEPTED and linked is linked to the request with the same id
        # (type-aware), and a response whose id was requested and occurs once in the body is linked to exactly that request
        if exc is None and resp is not None and resp.is_success:
            body_ids = [el.get('id') for el in body if isinstance(el, dict)] if isinstance(body, list) else []
            for r in resp:
                rel = r.related
                if rel is not None and not typed_eq(rel.id, r.id):
                    discs.append(Disc("C08/send/linked-to-request-with-another-id", f"response id {r.id!r} is linked to the request with id {rel.id!r} | {where}"))
                    break
                owners = [q for q in reqs if typed_eq(q.id, r.id)]
                if r.id is not None and len(owners) == 1 and len([i for i in body_ids if typed_eq(i, r.id)]) == 1 and rel is not owners[0]:
                    discs.append(Disc("C08/send/related-not-linked", f"response id {r.id!r} (requested, present once) is linked to {rel!r} | {where}"))
                    break
            if not strict and not pure_perm:
                classes_extra.append('non-strict/faulty-body-accepted')

        # (2) batch.add(...).notify(...).call() with an id generator yielding the same ids
        ids_iter = list(call_ids)
        client2 = ch.make_client(kind, transport, strict=strict, id_gen_impl=lambda: iter(ids_iter))
        b = client2.batch
        for i, c in enumerate(calls):
            b.add(f'm{i}', i)
            if i < spec['notifications']:
                b.notify('note', i)
        try:
            value, exc2 = ch.call(kind, lambda: b.call()), None
        except Exception as e:
            value, exc2 = None, e
        if judged:
            discs += self._judge_call(verdict, payload, value, exc2, calls, where)
        elif verdict == 'undecided' and null_errors and exc2 is None:
            discs.append(Disc("C08/call/server-error-without-id-swallowed", f"call() returned {value!r} | {where}"))
        # (3) the SAME batch object used for a second round trip after more calls were added: the server answers all of them, in the
        # reverse of the request order - results are attributed to the calls in the order the calls were made (all of them)
        if not discs and all(c['outcome'] == 'ok' for c in calls):
            extra_ids = ['second-trip-x', 'second-trip-y']
            ids_iter.extend(extra_ids)
            all_ids = list(call_ids) + extra_ids
            client3 = ch.make_client(kind, transport, strict=strict, id_gen_impl=lambda: iter(list(all_ids)))
            b3 = client3.batch
            for i in range(len(calls)):
                b3.add(f'm{i}', i)
            reply[0] = json.dumps([{'jsonrpc': '2.0', 'id': i, 'result': {'call': n}} for n, i in enumerate(call_ids)])
            try:
                first = ch.call(kind, lambda: b3.call())
                for n in range(len(extra_ids)):
                    b3.add(f'x{n}', n)
                reply[0] = json.dumps(list(reversed([{'jsonrpc': '2.0', 'id': i, 'result': {'call': n}} for n, i in enumerate(all_ids)])))
                second = ch.call(kind, lambda: b3.call())
                want = [{'call': n} for n in range(len(all_ids))]
                if not jg.jeq(list(first), want[:len(calls)]) or not jg.jeq(list(second), want):
                    discs.append(Disc("C08/call/second-round-trip-of-one-batch-object-misattributed",
                                      f"first {first!r} second {second!r} expected {want} | {where}"))
            except Exception as e:
                discs.append(Disc(f"C08/call/second-round-trip-of-one-batch-object-raised/{type(e).__name__}", f"{e!r} | {where}"))
            classes_extra.append('batch-object/second-round-trip')
            reply[0] = text

        # (4) the caller keeps NO reference to the requests it sends (built inline, the usual way): the link is the response's own -
        # every accepted response still leads to the request it answers (same id, method and parameters)
        if not discs and judged and verdict == 'ok':
            client4 = ch.make_client(kind, transport, strict=strict)
            try:
                resp4 = ch.call(kind, lambda: client4.batch.send(pjrpc.BatchRequest(
                    *[pjrpc.Request(f'm{i}', [i], id=c['id']) for i, c in enumerate(calls)], *[pjrpc.Request('note', [i]) for i in range(spec['notifications'])])))
                for k, c in enumerate(calls):
                    rel = resp4[k].related
                    if rel is None or not typed_eq(rel.id, c['id']) or rel.method != f'm{k}' or not jg.jeq(rel.params, [k]):
                        discs.append(Disc("C08/send/related-not-linked/request-not-kept-by-the-caller",
                                          f"position {k}: related {rel!r}, expected the request m{k}([{k}]) with id {c['id']!r} | {where}"))
                        break
            except Exception as e:
                discs.append(Disc(f"C08/send/unexpected-exception/{type(e).__name__}", f"inline batch: {e!r} | {where}"))
            classes_extra.append('requests/not-kept-by-the-caller')

        classes = [f"verdict/{verdict}", 'strict/on' if strict else 'strict/off', f"client/{kind}", f"n={len(calls)}"] + classes_extra
        for op in spec['program']:
            classes.append(f"op/{op[0]}")
        if verdict == 'ok' and not identity_program:
            classes.append('reordered-ok')
        if len({c['outcome'] for c in calls}) == 2:
            classes.append('error-mix')
        return Outcome(discs, not identity_program, sorted(set(classes)), evaluations=2)

    def _expected_error(self, err: Dict[str, Any]):
        return he.expected_class(err['code']), err

    def _check_error(self, exc: Any, err: Dict[str, Any], what: str, where: str) -> List[Disc]:
        want_cls = he.expected_class(err['code'])
        if not isinstance(exc, JsonRpcError):
            return [Disc(f"C08/{what}/not-raised-as-rpc-error", f"got {exc!r} expected {want_cls.__name__}{err} | {where}")]
        d = []
        if type(exc) is not want_cls:
            d.append(Disc(f"C08/{what}/error-class", f"{type(exc).__name__} expected {want_cls.__name__} | {where}"))
        from pjrpc.common import UNSET
        data_ok = (exc.data is UNSET) if 'data' not in err else (exc.data is not UNSET and jg.jeq(exc.data, err['data']))
        if not (jg.jeq(exc.code, err['code']) and jg.jeq(exc.message, err['message']) and data_ok):
            d.append(Disc(f"C08/{what}/error-content", f"{exc!r} expected {err} | {where}"))
        return d

    def _judge_send(self, verdict, payload, resp, exc, reqs, calls, where) -> List[Disc]:
        if verdict == 'deser':
            if not isinstance(exc, DeserializationError):
                return [Disc("C08/send/malformed-body-not-rejected", f"got {exc!r} / {resp!r} | {where}")]
            return []
        if verdict == 'identity':
            if not isinstance(exc, IdentityError):
                return [Disc(f"C08/send/identity-not-enforced/{payload.replace(' ', '-')}", f"got {exc!r} / {resp!r} | {where}")]
            return []
        if exc is not None:
            return [Disc(f"C08/send/unexpected-exception/{type(exc).__name__}", f"{exc!r} | {where}")]
        if verdict == 'batch-error':
            d = []
            if not resp.is_error:
                d.append(Disc("C08/send/batch-error-not-flagged", f"{resp!r} | {where}"))
            try:
                resp.result
                d.append(Disc("C08/send/batch-error-not-raised", f"{resp!r} | {where}"))
            except Exception as e:
                d += self._check_error(e, payload, 'send/batch-error', where)
            return d
        d = []
        if len(resp) != len(calls):
            return [Disc("C08/send/response-count", f"{len(resp)} responses for {len(calls)} calls | {where}")]
        for k, (req, el) in enumerate(zip(reqs, payload)):
            r = resp[k]
            if not (type(r.id) is type(req.id) and r.id == req.id):
                d.append(Disc("C08/send/position-not-in-call-order", f"position {k} holds id {r.id!r}, call {k} has id {req.id!r} | {where}"))
                break
            if r.related is not req:
                d.append(Disc("C08/send/related-not-linked", f"position {k}: related {r.related!r} | {where}"))
        if not d:
            first_err = next((el['error'] for el in payload if 'error' in el), None)
            try:
                tup = resp.result
                if first_err is not None:
                    d.append(Disc("C08/send/error-not-raised", f"result {tup!r} | {where}"))
                elif not jg.jeq(list(tup), [el['result'] for el in payload]):
                    d.append(Disc("C08/send/tuple-order", f"{tup!r} expected {[el['result'] for el in payload]} | {where}"))
            except Exception as e:
                if first_err is None:
                    d.append(Disc(f"C08/send/unexpected-exception/{type(e).__name__}", f"{e!r} | {where}"))
                else:
                    d += self._check_error(e, first_err, 'send/first-error', where)
        return d

    def _judge_call(self, verdict, payload, value, exc, calls, where) -> List[Disc]:
        if verdict == 'deser':
            return [] if isinstance(exc, DeserializationError) else [Disc("C08/call/malformed-body-not-rejected", f"got {exc!r} / {value!r} | {where}")]
        if verdict == 'identity':
            return [] if isinstance(exc, IdentityError) else [Disc(f"C08/call/identity-not-enforced/{payload.replace(' ', '-')}", f"got {exc!r} / {value!r} | {where}")]
        if verdict == 'batch-error':
            return self._check_error(exc, payload, 'call/batch-error', where)
        first_err = next((el['error'] for el in payload if 'error' in el), None)
        if first_err is not None:
            return self._check_error(exc, first_err, 'call/first-error', where)
        if exc is not None:
            return [Disc(f"C08/call/unexpected-exception/{type(exc).__name__}", f"{exc!r} | {where}")]
        want = [el['result'] for el in payload]
        if not isinstance(value, tuple) or not jg.jeq(list(value), want):
            return [Disc("C08/call/tuple-order", f"{value!r} expected {want} | {where}")]
        return []

    def _run_single(self, spec: Any) -> Outcome:
        kind, strict, rid, rel, shape = spec['client'], spec['strict'], spec['id'], spec['relation'], spec['shape']
        if rel == 'equal':
            resp_id: Any = rid
        elif rel == 'different':
            resp_id = (rid + 1) if isinstance(rid, int) else rid + 'x'
        elif rel == 'null':
            resp_id = None
        elif rel == 'type-confused':
            resp_id = str(rid) if isinstance(rid, int) else (int(rid) if rid.lstrip('-').isdigit() else rid + ' ')
        elif rel == 'bool':
            resp_id = True
        else:
            resp_id = 1.0
        err = {'code': 7, 'message': 'seven', 'data': [1]}
        typed_err = {'code': -32601, 'message': 'Method not found'}
        body: Any = {
            'result': {'jsonrpc': '2.0', 'id': resp_id, 'result': 'r'}, 'result-null': {'jsonrpc': '2.0', 'id': resp_id, 'result': None},
            'error': {'jsonrpc': '2.0', 'id': resp_id, 'error': err}, 'error-typed': {'jsonrpc': '2.0', 'id': resp_id, 'error': typed_err},
            'not-response': {'jsonrpc': '2.0', 'id': resp_id}, 'array': [{'jsonrpc': '2.0', 'id': resp_id, 'result': 'r'}], 'scalar': 5,
            'both': {'jsonrpc': '2.0', 'id': resp_id, 'result': 0, 'error': err},
            'result-and-null-error': {'jsonrpc': '2.0', 'id': resp_id, 'result': 5, 'error': None},
            'error-without-message': {'jsonrpc': '2.0', 'id': resp_id, 'error': {'code': -32601}},
        }[shape]
        text = json.dumps(body)
        client = ch.make_client(kind, lambda t, n, k: text, strict=strict, id_gen_impl=lambda: iter([rid]))
        try:
            value, exc = ch.call(kind, lambda: client.call('m', 1)), None
        except Exception as e:
            value, exc = None, e
        req = pjrpc.Request('m', [1], id=rid)
        try:
            resp, exc_send = ch.call(kind, lambda: client.send(req)), None
        except Exception as e:
            resp, exc_send = None, e
        where = f"client={kind} strict={strict} request id={rid!r} relation={rel} shape={shape} body={text}"
        discs: List[Disc] = []
        malformed = shape in ('not-response', 'array', 'scalar', 'both', 'result-and-null-error', 'error-without-message') or rel in ('bool', 'float')
        mismatch = strict and resp_id is not None and not typed_eq(resp_id, rid)
        for what, v, e in (('call', value, exc), ('send', resp, exc_send)):
            if malformed:
                if not isinstance(e, DeserializationError):
                    discs.append(Disc(f"C08/single/{what}/malformed-body-not-rejected", f"got {e!r} / {v!r} | {where}"))
            elif mismatch:
                if not isinstance(e, IdentityError):
                    discs.append(Disc(f"C08/single/{what}/identity-not-enforced", f"got {e!r} / {v!r} | {where}"))
            elif what == 'call':
                if shape.startswith('error'):
                    discs += self._check_error(e, err if shape == 'error' else typed_err, 'single/call', where)
                elif e is not None or not jg.jeq(v, body['result']):
                    discs.append(Disc("C08/single/call/result", f"got {v!r} / {e!r} | {where}"))
            else:
                if e is not None:
                    discs.append(Disc(f"C08/single/send/unexpected-exception/{type(e).__name__}", f"{e!r} | {where}"))
                elif v.related is not req:
                    discs.append(Disc("C08/single/send/related-not-linked", f"{v.related!r} | {where}"))
                else:
                    # the same exchange with a request the caller does not keep a reference to
                    try:
                        rel_inline = ch.call(kind, lambda: client.send(pjrpc.Request('m', [1], id=rid))).related
                        if rel_inline is None or not typed_eq(rel_inline.id, rid) or rel_inline.method != 'm':
                            discs.append(Disc("C08/single/send/related-not-linked/request-not-kept-by-the-caller", f"{rel_inline!r} | {where}"))
                    except Exception as e2:
                        discs.append(Disc(f"C08/single/send/unexpected-exception/{type(e2).__name__}", f"inline request: {e2!r} | {where}"))
        rel_class = {'bool': 'type-confused', 'float': 'type-confused'}.get(rel, rel)
        classes = ['mode/single', f"single/{rel_class}", 'strict/on' if strict else 'strict/off', f"client/{kind}"]
        return Outcome(discs, rel != 'equal' or shape not in ('result',), classes, evaluations=2)


CHECK = C08()

MANIFEST = dict(
    technique="fault enumeration of response-array perturbation programs plus property-based sampling (Hypothesis) against a reference matching relation",
    level_text=(
        "For batches of up to 3 (quick) / 4 (thorough) calls every success/error mix, every permutation and every single fault (omit, "
        "duplicate, add, retype, null an id) or whole-body replacement is scripted as the server's reply and read through batch.send and "
        "batch.call(); stacked faults and single-call id relations are sampled. An independent relation decides which library exception, "
        "which linking and which order are required."
    ),
    level_note="trusts the reference relation in checks/c08.py; non-strict mode is judged only on fault-free permutations",
)
