"""
C04 - methods receive exactly the arguments a direct Python call would bind, plus the server-side context;
whenever a direct call could not bind the caller gets -32602 and the body does not run; the context can never be
supplied or overridden by the client.
"""

import itertools
from typing import Any, Dict, Iterator, List, Optional

from hypothesis import strategies as st

from pbt import jsongen as jg, methods as hm, refserver as ref, serverharness as sh
from pbt.runner import Check, Disc, Outcome

KINDS = ['PO', 'PK', 'VP', 'KO', 'VK']
VALS = [10, 'v1', None, [3], {'k': 4}, 5.5]


def normalise(raw: List[Dict[str, Any]]) -> List[Dict[str, Any]]:
    """turn arbitrary (kind, has-default) draws into a python-valid parameter list p0..pn / args / kw"""
    raw = sorted(raw, key=lambda p: hm.KIND_ORDER[p['kind']])
    out: List[Dict[str, Any]] = []
    seen_vp = seen_vk = False
    pos_default = False
    for i, p in enumerate(raw):
        kind = p['kind']
        if kind == 'VP':
            if seen_vp:
                kind = 'KO'
            seen_vp = True
        if kind == 'VK':
            if seen_vk:
                continue
            seen_vk = True
        q: Dict[str, Any] = {'name': f'p{i}', 'kind': kind}
        if kind == 'VP':
            q['name'] = 'args'
        elif kind == 'VK':
            q['name'] = 'kw'
        else:
            has_default = 'default' in p
            if kind in ('PO', 'PK'):
                pos_default = pos_default or has_default
                has_default = pos_default
            if has_default:
                q['default'] = p.get('default') or {'value': f'd{i}'}
        out.append(q)
    out.sort(key=lambda p: hm.KIND_ORDER[p['kind']])
    return out


def ctx_variants(params: List[Dict[str, Any]], flavour_async: bool) -> Iterator[Dict[str, Any]]:
    """every way of designating a context parameter for this signature"""
    fn = 'coro' if flavour_async else 'func'
    vw = 'aview' if flavour_async else 'view'
    yield {'params': params, 'flavour': fn, 'ctx': 'none'}
    yield {'params': params, 'flavour': fn, 'ctx': 'none', 'positional_flag': True}
    yield {'params': params, 'flavour': fn, 'ctx': 'none', 'positional_flag': True, 'via': 'dispatcher.add'}
    ctxp = {'name': 'ctx', 'kind': 'PK', 'ctx': True}
    # by name, at every python-valid position among the positional-or-keyword parameters, and as keyword-only
    n_po = len([p for p in params if p['kind'] == 'PO'])
    n_pk = len([p for p in params if p['kind'] == 'PK'])
    for pos in range(n_po, n_po + n_pk + 1):
        cand = params[:pos] + [ctxp] + params[pos:]
        if hm.valid_order(cand):
            yield {'params': cand, 'flavour': fn, 'ctx': 'name'}
    n_before_ko = len([p for p in params if p['kind'] in ('PO', 'PK', 'VP')])
    yield {'params': params[:n_before_ko] + [{'name': 'ctx', 'kind': 'KO', 'ctx': True}] + params[n_before_ko:], 'flavour': fn, 'ctx': 'name'}
    # positional: the context is the first parameter
    first = {'name': 'ctx', 'kind': 'PO' if n_po else 'PK', 'ctx': True}
    cand = [first] + params
    if hm.valid_order(cand):
        yield {'params': cand, 'flavour': fn, 'ctx': 'positional'}
    # the context as a positional-ONLY first parameter (only positional=True can serve it), registered on the registry or through dispatcher.add
    if not n_po:
        cand = [{'name': 'ctx', 'kind': 'PO', 'ctx': True}] + params
        if hm.valid_order(cand):
            yield {'params': cand, 'flavour': fn, 'ctx': 'positional'}
            yield {'params': cand, 'flavour': fn, 'ctx': 'positional', 'via': 'dispatcher.add'}
    if hm.valid_order([first] + params):
        yield {'params': [first] + params, 'flavour': fn, 'ctx': 'positional', 'via': 'dispatcher.add'}
    # class based view: through the constructor, or no context at all; the instance parameter need not be called 'self'
    yield {'params': params, 'flavour': vw, 'ctx': 'view'}
    yield {'params': params, 'flavour': vw, 'ctx': 'none'}
    yield {'params': params, 'flavour': vw, 'ctx': 'view', 'self_name': 'this'}
    yield {'params': params, 'flavour': vw, 'ctx': 'none', 'static': True}
    if params:
        # parameters annotated with a string naming a type that is not importable at run time (the base validator never looks at annotations)
        yield {'params': params, 'flavour': fn, 'ctx': 'none', 'annotations': 'unresolvable'}
        yield {'params': params, 'flavour': vw, 'ctx': 'view', 'annotations': 'unresolvable'}
    # the view gets the context through its constructor (registered as context='context'); a METHOD parameter that happens to be
    # called 'context' too is an ordinary client parameter
    vnamed = [p for p in params if p['kind'] in ('PK', 'KO')]
    if vnamed:
        first_named = vnamed[0]['name']
        yield {'params': [({**p, 'name': 'context'} if p['name'] == first_named else p) for p in params], 'flavour': vw, 'ctx': 'view'}
    # a client parameter whose name is contained in the context parameter's name ('t' in 'ctx')
    renamed = [({**p, 'name': 't'} if i == 0 and p['kind'] in ('PK', 'KO') else p) for i, p in enumerate(params)]
    if renamed != params:
        cand = renamed + [{'name': 'ctx', 'kind': 'KO', 'ctx': True}] if not any(p['kind'] == 'VK' for p in params) else None
        if cand and hm.valid_order(cand):
            yield {'params': cand, 'flavour': fn, 'ctx': 'name'}
    # client parameters named like things the library itself handles internally (any name is the application's to choose)
    named = [p for p in params if p['kind'] in ('PK', 'KO')]
    if named:
        # every such name for one-parameter signatures, one (rotating) name for longer ones
        start = (len(params) * 7 + sum(len(p['name']) for p in params) + ('default' in named[0])) % len(INTERNAL_LOOKING)
        picks = INTERNAL_LOOKING if len(params) == 1 else [INTERNAL_LOOKING[start]]
        for pick in picks:
            first = True
            cand2 = []
            for p in params:
                if first and p['kind'] in ('PK', 'KO'):
                    cand2.append({**p, 'name': pick})
                    first = False
                else:
                    cand2.append(p)
            if hm.valid_order(cand2):
                yield {'params': cand2, 'flavour': fn, 'ctx': 'none'}


INTERNAL_LOOKING = ['signature', 'method', 'params', 'request', 'cls', 'kwargs', 'exclude', 'name', 'validator', 'func', 'handler', 'error']


def signatures(n: int) -> Iterator[List[Dict[str, Any]]]:
    """all python-valid signatures of exactly n parameters (kinds x defaults), names p0.. / args / kw"""
    seen = set()
    for kinds in itertools.product(KINDS, repeat=n):
        if list(kinds) != sorted(kinds, key=lambda k: hm.KIND_ORDER[k]) or kinds.count('VP') > 1 or kinds.count('VK') > 1:
            continue
        for defaults in itertools.product([False, True], repeat=n):
            raw = []
            ok = True
            for k, d in zip(kinds, defaults):
                if d and k in ('VP', 'VK'):
                    ok = False
                    break
                raw.append({'kind': k, **({'default': None} if d else {})})
            if not ok:
                continue
            params = []
            for i, (k, d) in enumerate(zip(kinds, defaults)):
                q: Dict[str, Any] = {'name': 'args' if k == 'VP' else 'kw' if k == 'VK' else f'p{i}', 'kind': k}
                if d:
                    q['default'] = {'value': f'd{i}'}
                params.append(q)
            if not hm.valid_order(params):
                continue
            key = repr(params)
            if key not in seen:
                seen.add(key)
                yield params


def param_shapes(params: List[Dict[str, Any]]) -> Iterator[Dict[str, Any]]:
    yield {'absent': True}
    for n in range(0, 6):
        yield {'value': [VALS[i % len(VALS)] for i in range(n)]}
    names = [p['name'] for p in params if not p.get('ctx')] + ['zz'] + [p['name'] for p in params if p.get('ctx')]
    if not any(p.get('ctx') for p in params):
        names.append('context')
    for r in range(0, len(names) + 1):
        for subset in itertools.combinations(names, r):
            yield {'value': {k: VALS[i % len(VALS)] for i, k in enumerate(subset)}}


def variadic_or_posonly(spec: Any, disc: Disc) -> bool:
    """KF-C04-1: the twin binds and a variadic parameter receives something, or a positional-only one is supplied"""
    m = spec['method']
    p = spec['params']
    bound = ref.bind(m, [] if 'absent' in p else p['value'])
    if bound is None:
        return False
    for q in m['params']:
        if q.get('ctx'):
            continue
        if q['kind'] in ('VP', 'VK') and bound.get(q['name']):
            return True
        if q['kind'] == 'PO':
            # explicitly supplied (a defaulted positional-only parameter that is omitted works)
            supplied = p.get('value') if 'absent' not in p else []
            npos = [x['name'] for x in m['params'] if not x.get('ctx') and x['kind'] in ('PO', 'PK')]
            if isinstance(supplied, list) and npos.index(q['name']) < len(supplied):
                return True
    return False


# a view's public method may carry any public name - also the names of the things the library hands to a view or keeps about a method
VIEW_METHOD_NAMES = ['v.meth', 'v.meth', 'v.context', 'v.meth', 'v.request', 'v.method', 'v.name', 'v.dispatcher']


class C04(Check):
    pid = 'C04'
    level = 'exploration'
    quick_examples = 2500
    thorough_examples = 25000
    matchers = {'variadic_or_posonly': variadic_or_posonly}
    rule = (
        "[round 16: view methods named context / request / method / name / dispatcher] [drawn in addition since rounds 13-15: registration with positional=True but without a context; the request alone, as an element of a batch, or of a sequentially served async batch] "
        "cases: (a) enumerated: every python-valid signature of <= 2 (quick) / <= 3 (thorough) parameters over the kinds positional-only / "
        "positional-or-keyword / *args / keyword-only / **kw x with/without defaults, x every way of designating the context (none; by name "
        "at each valid positional position and as keyword-only; first positional with positional=True; class based view with and without "
        "constructor context) x dispatcher (sync: functions and views; async: coroutines and async views), crossed with params absent, all "
        "positional lists of length 0..5 and all named mappings over every subset of (parameter names + 'zz' + the context name); (b) "
        "Hypothesis: signatures of up to 4 parameters with JSON-scalar defaults and pooled JSON values as arguments; views whose instance parameter is named 'this'; public static methods of views; parameters with string annotations that cannot be resolved at run time; view methods with an ordinary parameter named like the view's registered context name; a client parameter whose name is contained in the context parameter's name; client parameters named like the library's own internals (signature, method, params, request, cls, kwargs ...); "
        "(c) histories of 6..14 short-lived dispatchers each serving a freshly created function that is dropped afterwards (every step judged like a single case). Oracle: a twin function "
        "with the same signature minus the context is called with the same list/mapping: TypeError => -32602 and empty execution log; "
        "otherwise success whose result is the scripted return value and one log entry whose arguments equal the twin's locals(); the "
        "recorded context is the object passed to dispatch (identity) - the context object itself ranges over a plain object, an empty dict, an empty list, a falsy object and None. non-trivial = the signature has >= 1 parameter and params is "
        "non-empty, or a default is exercised, or a context parameter is present; distinct = distinct spec."
    )
    assumptions = [
        "'a direct Python call would bind' is decided by actually calling a generated twin function",
        "positional=True only with the context parameter first",
        "KF-C04-1 (variadic / positional-only parameters are passed by name) is muted only for cases where a variadic parameter "
        "receives a value or a positional-only parameter is supplied; totality and context clauses stay active there",
    ]
    trusted_base = ['python call binding (twin functions)', 'pbt/refserver.py']
    required_classes = ['kind/PO', 'kind/PK', 'kind/VP', 'kind/KO', 'kind/VK', 'ctx/none', 'ctx/name', 'ctx/positional', 'ctx/view',
                        'outcome/binds', 'outcome/does-not-bind', 'attack/context-name-supplied', 'default-exercised',
                        'flavour/func', 'flavour/coro', 'flavour/view', 'flavour/aview', 'ctx-value/empty-dict', 'ctx-value/falsy-object', 'ctx-value/none',
                        'ephemeral/history', 'view/instance-parameter-not-named-self', 'view/staticmethod', 'carrier/batch', 'carrier/batch-sequential']

    # ---- generation ---------------------------------------------------------------------------------

    def _enum(self, maxn: int, shard: int = 0, nshards: int = 1) -> Iterator[Any]:
        k = 0
        for n in range(0, maxn + 1):
            for params in signatures(n):
                for disp in ('sync', 'async'):
                    for variant in ctx_variants(params, disp == 'async'):
                        k += 1
                        if k % nshards != shard:
                            continue
                        m = {'name': VIEW_METHOD_NAMES[k % len(VIEW_METHOD_NAMES)] if variant['flavour'] in ('view', 'aview') else 'meth', **variant}
                        for n_shape, shape in enumerate(param_shapes(m['params'])):
                            spec = {'dispatcher': disp, 'method': m, 'params': shape, 'id': 1, 'behaviour': {'kind': 'echo'}}
                            if m['ctx'] != 'none':
                                # the server-side context object itself varies: truthy, falsy containers, a falsy object, None
                                spec['ctx_value'] = sh.CTX_KINDS[(k + n_shape) % len(sh.CTX_KINDS)]
                            yield spec

    def enumerate(self, tier: str):
        return self._enum(2) if tier == 'quick' else None

    def enum_shards(self, tier: str) -> int:
        return 16

    def enumerate_shard(self, tier: str, shard: int, nshards: int):
        return self._enum(3, shard, nshards)

    def exhaustive_note(self, tier: str) -> str:
        n = 2 if tier == 'quick' else 3
        return f"all signatures of <= {n} parameters x context designations x dispatchers x all positional lists 0..5 and all named subsets; 4-parameter layer sampled"

    def strategy(self, tier: str):
        s_kind = st.sampled_from(KINDS)
        s_default = st.sampled_from([None, None, {'value': None}, {'value': 0}, {'value': 'd'}, {'value': 1.5}, {'value': False}])
        s_raw = st.lists(st.builds(lambda k, d: {'kind': k, **({'default': d} if d else {})}, s_kind, s_default), max_size=4)
        s_val = jg.cheap_value()
        s_variant = st.integers(0, 9)
        s_disp = st.sampled_from(['sync', 'async'])
        s_shape = st.sampled_from(['absent', 'list', 'list', 'dict', 'dict', 'dict'])
        s_len = st.integers(0, 5)
        s_bits = st.integers(0, 255)
        s_beh = st.one_of(st.just({'kind': 'echo'}), st.just({'kind': 'echo'}), st.builds(lambda v: {'kind': 'return', 'value': v}, s_val))
        s_id = jg.cheap_call_id()
        s_ctxv = st.sampled_from(sh.CTX_KINDS)
        s_carrier = st.sampled_from(['single', 'single', 'batch', 'batch-sequential'])

        s_vname = st.sampled_from(VIEW_METHOD_NAMES)

        @st.composite
        def case(draw):
            params = normalise(draw(s_raw))
            disp = draw(s_disp)
            variants = list(ctx_variants(params, disp == 'async'))
            variant = variants[draw(s_variant) % len(variants)]
            m = {'name': draw(s_vname) if variant['flavour'] in ('view', 'aview') else 'meth', **variant}
            shape = draw(s_shape)
            if shape == 'absent':
                p: Dict[str, Any] = {'absent': True}
            elif shape == 'list':
                p = {'value': [draw(s_val) for _ in range(draw(s_len))]}
            else:
                names = [q['name'] for q in m['params']] + ['zz', 'context']
                bits = draw(s_bits)
                p = {'value': {n: draw(s_val) for i, n in enumerate(names) if bits >> i & 1}}
            # carrier: the request alone, or as an element of a batch (next to a twin with another id); the async dispatcher serves batches
            # concurrently (default) or one element after the other
            return {'dispatcher': disp, 'method': m, 'params': p, 'id': draw(s_id), 'behaviour': draw(s_beh), 'ctx_value': draw(s_ctxv),
                    'carrier': draw(s_carrier)}

        @st.composite
        def ephemeral(draw):
            # a history of short-lived dispatchers, each serving its own freshly created (and then dropped) function
            steps = []
            for _ in range(draw(st.integers(6, 14))):
                c = draw(case())
                if c['method']['flavour'] not in ('func', 'coro'):
                    c['method'] = {**c['method'], 'flavour': 'coro' if c['dispatcher'] == 'async' else 'func', 'ctx': 'none',
                                   'params': [q for q in c['method']['params'] if not q.get('ctx')], 'name': 'meth'}
                # variadic / positional-only parameters are KF-C04-1's subject, not this history's
                ps = [({**q, 'kind': 'PK'} if q['kind'] == 'PO' else q) for q in c['method']['params'] if q['kind'] not in ('VP', 'VK')]
                if not hm.valid_order(ps):
                    ps = [{k: v for k, v in q.items() if k != 'default'} for q in ps]
                c['method'] = {**c['method'], 'params': ps}
                steps.append({'method': c['method'], 'params': c['params'], 'dispatcher': c['dispatcher']})
            return {'kind': 'ephemeral', 'steps': steps}

        return st.one_of(case(), case(), case(), case(), case(), case(), case(), ephemeral())

    def corpus(self):
        P = lambda name, kind, **kw: {'name': name, 'kind': kind, **kw}  # noqa: E731
        f = lambda *ps: {'name': 'meth', 'params': list(ps), 'flavour': 'func', 'ctx': 'none'}  # noqa: E731
        sigs = [(f(P('a', 'PK')), {'value': [1]}), (f(P('a', 'PK'), P('b', 'PK')), {'value': [1, 2]}), (f(), {'absent': True}),
                (f(P('x', 'KO')), {'value': {'x': 1}}), (f(P('a', 'PK'), P('b', 'PK', default={'value': 0})), {'value': {'a': 1}}), (f(P('y', 'PK')), {'value': {'y': 2}})]
        return [
            {'kind': 'ephemeral', 'steps': [{'method': m, 'params': p, 'dispatcher': 'sync'} for m, p in sigs * 4]},
            {'dispatcher': 'sync', 'method': {'name': 'meth', 'params': [P('a', 'PK'), P('args', 'VP')], 'flavour': 'func', 'ctx': 'none'},
             'params': {'value': [1, 2, 3]}, 'id': 1, 'behaviour': {'kind': 'echo'}},
            {'dispatcher': 'sync', 'method': {'name': 'meth', 'params': [P('ctx', 'PK', ctx=True), P('a', 'PK')], 'flavour': 'func', 'ctx': 'name'},
             'params': {'value': {'a': 1, 'ctx': 'evil'}}, 'id': 1, 'behaviour': {'kind': 'echo'}},
            {'dispatcher': 'async', 'method': {'name': 'meth', 'params': [P('ctx', 'PK', ctx=True), P('a', 'PK', default={'value': 0})], 'flavour': 'coro', 'ctx': 'positional'},
             'params': {'value': ['evil', 1]}, 'id': 1, 'behaviour': {'kind': 'echo'}},
            {'dispatcher': 'sync', 'method': {'name': 'v.meth', 'params': [P('a', 'PK'), P('b', 'KO', default={'value': 2})], 'flavour': 'view', 'ctx': 'view'},
             'params': {'value': {'a': 1}}, 'id': 1, 'behaviour': {'kind': 'echo'}},
        ]

    # ---- run ------------------------------------------------------------------------------------------

    def run_ephemeral(self, spec: Any) -> Outcome:
        """every step: a NEW function object (not cached by the harness) behind a new dispatcher, judged like a single case, then
        dropped - what a process that builds dispatchers per test / per tenant does; nothing may be remembered about a dead function"""
        import gc
        discs: List[Disc] = []
        classes = ['ephemeral/history']
        sigs = set()
        for k, step in enumerate(spec['steps']):
            one = {'dispatcher': step['dispatcher'], 'method': {**step['method'], 'ephemeral': True}, 'params': step['params'], 'id': k + 1,
                   'behaviour': {'kind': 'echo'}}
            out = self.run_case(one)
            sigs.add(hm.sig_source(step['method']['params'])[0])
            for d in out.discs:
                discs.append(Disc(d.bucket.replace('C04/', 'C04/ephemeral/', 1), f"step {k} of a history of short-lived functions: {d.detail}"))
            if discs:
                break
            gc.collect(1)      # the dropped function sits in a cycle with its globals dict; the two young generations are enough (and cheap)
        return Outcome(discs, len(sigs) >= 2, classes, evaluations=len(spec['steps']))

    def run_case(self, spec: Any) -> Outcome:
        if spec.get('kind') == 'ephemeral':
            return self.run_ephemeral(spec)
        m = dict(spec['method'])
        m['behaviour'] = spec['behaviour']
        req: Dict[str, Any] = {'jsonrpc': '2.0', 'id': spec['id'], 'method': m['name']}
        if 'absent' not in spec['params']:
            req['params'] = spec['params']['value']
        carrier = spec.get('carrier', 'single')
        doc: Any = req if carrier == 'single' else [req, {**req, 'id': 'twin-of-the-first-element'}]
        case = {'dispatcher': spec['dispatcher'], 'registry': [m], 'behaviours': {m['name']: spec['behaviour']}, 'ctx_value': spec.get('ctx_value', 'object'),
                'sequential': carrier == 'batch-sequential',
                'text': {'doc': doc, 'ascii': True, 'indent': 0, 'pad': '', 'huge': None, 'mangle': None}}
        obs = sh.observe(case)
        exp = ref.expect(obs.request_text, [m], {m['name']: spec['behaviour']})
        discs: List[Disc] = []
        if obs.raised is not None:
            discs.append(Disc(f"C04/dispatch-raised/{type(obs.raised).__name__}", f"{obs.raised!r} for {obs.request_text[:300]!r} sig={hm.sig_source(m['params'])[0]}"))
        elif obs.parse_error:
            discs.append(Disc("C04/malformed-return", obs.parse_error))
        sig = hm.sig_source(m['params'])[0]
        for d in sh.reference_discs('C04', obs, exp, ordered_log=True):
            family = 'context' if '/context/' in d.bucket else 'bind'
            discs.append(Disc(d.bucket.replace('C04/', f'C04/{family}/', 1), f"def meth({sig}) [{m['flavour']}, ctx={m['ctx']}]: {d.detail}"))
        # context: whenever the method ran and has a context designation it must have seen the dispatch context
        has_ctx = m['ctx'] != 'none'
        for e in obs.log:
            if has_ctx and e['ctx'] != 'sentinel':
                discs.append(Disc("C04/context/method-did-not-get-server-context", f"def meth({sig}) ctx={m['ctx']}: recorded {e['ctx']}"))
            if not has_ctx and e['ctx'] != 'none':
                discs.append(Disc("C04/context/unexpected-context", f"def meth({sig}): recorded {e['ctx']}"))

        el = exp.elements[0] if exp.elements else None
        classes = [f"ctx/{m['ctx']}", f"flavour/{m['flavour']}", f"dispatcher/{spec['dispatcher']}", f"carrier/{carrier}"]
        if m.get('self_name', 'self') != 'self':
            classes.append('view/instance-parameter-not-named-self')
        if m.get('static'):
            classes.append('view/staticmethod')
        if has_ctx:
            classes.append(f"ctx-value/{spec.get('ctx_value', 'object')}")
        for q in m['params']:
            if not q.get('ctx'):
                classes.append(f"kind/{q['kind']}")
        binds = el is not None and el.execution is not None
        classes.append('outcome/binds' if binds else 'outcome/does-not-bind')
        pv = spec['params'].get('value')
        ctx_names = [q['name'] for q in m['params'] if q.get('ctx')]
        if isinstance(pv, dict) and (set(ctx_names) & set(pv) or (m['ctx'] == 'view' and 'context' in pv)):
            classes.append('attack/context-name-supplied')
        if m['ctx'] == 'positional' and isinstance(pv, list) and pv:
            classes.append('attack/leading-positional')
        default_used = binds and any('default' in q and not q.get('ctx') and jg.jeq(el.execution['args'].get(q['name']), q['default']['value'])
                                     and not (isinstance(pv, dict) and q['name'] in pv) for q in m['params'])
        if default_used:
            classes.append('default-exercised')
        nparams = len([q for q in m['params'] if not q.get('ctx')])
        nontrivial = (nparams >= 1 and bool(pv)) or default_used or has_ctx
        return Outcome(discs, nontrivial, sorted(set(classes)))


CHECK = C04()

MANIFEST = dict(
    technique="exhaustive enumeration of signatures x argument shapes plus property-based sampling (Hypothesis), with twin-function binding as the oracle",
    level_text=(
        "All signatures of up to 2 (quick) / 3 (thorough) parameters over the five parameter kinds, defaults, every context designation and "
        "function / coroutine / view flavours are crossed with all positional lists of length 0..5 and all named subsets; 4-parameter "
        "signatures with JSON defaults and values are sampled. The oracle is a real Python call of a twin function, the execution log of "
        "the generated method and the identity of the recorded context. Exhaustive on the stated finite space, sampling beyond it."
    ),
    level_note="trusts python's own call binding and pbt/refserver.py; the known finding KF-C04-1 (variadic / positional-only parameters) "
               "is muted by a precise predicate, everything else on those signatures is still checked",
)
