"""
C03 - failures map to JSON-RPC 2.0 error codes; application errors pass verbatim (absent data stays absent,
null stays null); any other exception is reported as -32000 and nothing about it leaks into the response.
"""

from typing import Any, List

from hypothesis import strategies as st

from pbt import docs, jsongen as jg, refserver as ref, serverharness as sh, stdreg
from pbt.runner import Check, Disc, Outcome

from checks.c01 import BATCH_LIMITS, CODEC_CHOICES, batch_limit, doc_classes

CODE_CLAUSE_PREFIXES = ('code/', 'app-error', 'lib-error', 'expected-error', 'expected-success', 'nothing-vs-response', 'id')


class C03(Check):
    pid = 'C03'
    level = 'exploration'
    quick_examples = 4000
    thorough_examples = 50000
    rule = (
        "[round 16: clean batches of 10-33 elements; every boundary error code (32 / 53 / 64 bit, 10**30, 0, -1) raised once per serving mode] [drawn in addition since rounds 13-15: async dispatcher serving plain functions and its sequential batch mode; library error classes (ServerError, InternalError ...) raised by methods with their own message / data; typed classes raised with a code of their own; a view whose constructor raises KeyError] "
        "cases: request documents of C01/C02 (valid / invalid objects, batches, non-JSON text) over the 15-method registry whose failing "
        "methods are scripted per case: protocol errors of the base class with codes over {0, 1, -1, 7, standard codes, reserved server "
        "range, +-2^31, 10^30, random 70-bit} and of every typed class, messages incl. '' and Unicode edge strings, data absent / null / any "
        "JSON value; 12 exception types (ValueError, KeyError, TypeError raised inside the body, AssertionError, RuntimeError, custom "
        "Exception subclasses, StopIteration, UnicodeDecodeError ...) carrying a per-case marker; each reachable as call, notification and "
        "batch element. Oracle: reference server codes with id-null rule; application error == (code, message, data-or-absent) under "
        "type-aware equality; other exceptions => -32000 and neither the marker, the exception class name nor 'Traceback' occurs in the "
        "response text; -32602 => the method did not run. non-trivial = the case contains at least one failure (document-level or "
        "element-level); distinct = distinct spec."
    )
    assumptions = [
        "library-generated errors: only the code and the id are predicted (message must be a string)",
        "leak check applies when the request text itself does not contain the marker / class name",
    ]
    trusted_base = ['pbt/refserver.py', 'python json']
    required_classes = [
        'doc/not-json', 'doc/invalid-request-object', 'doc/batch-rejected/empty', 'doc/batch-rejected/invalid-element',
        'call/unknown-method', 'call/params-do-not-bind', 'call/raises-protocol-error', 'call/raises-exception',
        'notification/raises-protocol-error', 'notification/raises-exception', 'app-error/data-absent', 'app-error/data-null',
        'app-error/code-0', 'app-error/empty-message', 'exception/TypeError', 'carrier/batch-element-failure', 'leak/checked', 'logging/debug',
    ]

    def strategy(self, tier: str):
        def for_kind(kind: str, plain: bool = False):
            reg = stdreg.std_registry('sync' if plain else kind)
            # aim most calls at the failing methods
            gen = docs.document(reg, kinds=['single'] * 5 + ['batch'] * 5 + ['mangled', 'raw', 'value'],
                                flavours=['valid'] * 10 + ['unknown-method'] * 2 + ['deviant', 'deviant', 'non-object'])
            return st.builds(
                lambda text, beh, mbs, codec: {'dispatcher': kind, 'plain': plain, 'sequential': kind == 'async' and (len(beh) + len(codec)) % 3 == 0, 'max_batch_size': batch_limit(text, mbs), 'behaviours': beh, 'text': text, 'codec': codec,
                                           'logging': 'debug' if (len(beh) + (mbs is None)) % 3 == 0 else 'off'},
                gen, stdreg.behaviours(True), st.sampled_from(BATCH_LIMITS), st.sampled_from(CODEC_CHOICES),
            )
        return st.one_of(for_kind('sync'), for_kind('async'), for_kind('async', True))

    def corpus(self):
        t = lambda doc: {'doc': doc, 'ascii': True, 'indent': 0, 'pad': '', 'huge': None, 'mangle': None}  # noqa: E731
        err = lambda code, msg, data: {'kind': 'raise_rpc', 'error': {'cls': 'JsonRpcError', 'code': code, 'message': msg, 'data': data}}  # noqa: E731
        out = []
        for kind in ('sync', 'async'):
            base = {'dispatcher': kind, 'max_batch_size': None}
            call = t({'jsonrpc': '2.0', 'id': 1, 'method': 'rpc_err'})
            out += [
                {**base, 'behaviours': {'rpc_err': err(0, 'm', {'absent': True})}, 'text': call},
                {**base, 'behaviours': {'rpc_err': err(1, '', {'value': None})}, 'text': call},
                {**base, 'behaviours': {'rpc_err': err(-32601, 'Method not found', {'value': {'a': [1]}})}, 'text': call},
                {**base, 'behaviours': {'rpc_err': err(-32700, 'x', {'value': False})}, 'text': t([{'jsonrpc': '2.0', 'method': 'rpc_err'}, {'jsonrpc': '2.0', 'id': 2, 'method': 'rpc_err', 'params': [1]}])},
                {**base, 'behaviours': {'boom': {'kind': 'raise_exc', 'exc': 'TypeError', 'marker': 'MARKER-tt-zq'}}, 'text': t({'jsonrpc': '2.0', 'id': 1, 'method': 'boom'})},
                {**base, 'behaviours': {'boom': {'kind': 'raise_exc', 'exc': 'KeyError', 'marker': 'MARKER-kk-zq'}}, 'text': t([{'jsonrpc': '2.0', 'id': 1, 'method': 'boom'}, {'jsonrpc': '2.0', 'method': 'boom'}])},
                {**base, 'behaviours': {}, 'text': t({'jsonrpc': '2.0', 'id': 1, 'method': 'echo', 'params': {'a': 1, 'zz': 2}})},
                {**base, 'behaviours': {'rpc_err': {'kind': 'raise_rpc', 'error': {'cls': 'QuotaError', 'code': None, 'message': None, 'data': {'value': {'limit': 3}}}}}, 'text': t([{'jsonrpc': '2.0', 'id': 1, 'method': 'rpc_err'}, {'jsonrpc': '2.0', 'method': 'rpc_err'}])},
                {**base, 'behaviours': {}, 'text': {**t({'jsonrpc': '2.0', 'id': 1, 'method': 'noargs'}), 'pad': '\x0c'}},
                {**base, 'behaviours': {}, 'text': {**t([{'jsonrpc': '2.0', 'id': 1, 'method': 'noargs'}]), 'pad': '\u2028'}},
                {**base, 'behaviours': {'boom': {'kind': 'raise_exc', 'exc': 'ValidationError', 'marker': 'MARKER-vv-zq'}}, 'text': t({'jsonrpc': '2.0', 'id': 1, 'method': 'boom'})},
                {**base, 'behaviours': {'boom2': {'kind': 'raise_exc', 'exc': 'DeserializationError', 'marker': 'MARKER-dd-zq'}},
                 'text': t([{'jsonrpc': '2.0', 'id': 1, 'method': 'boom2'}, {'jsonrpc': '2.0', 'method': 'boom2'}])},
            ]
            # every exception type of the alphabet once, as a call and inside a batch next to a notification
            for exc in dict.fromkeys(stdreg.EXC_NAMES):
                beh = {'boom': {'kind': 'raise_exc', 'exc': exc, 'marker': f'MARKER-{exc}-zq'}, 'boom2': {'kind': 'raise_exc', 'exc': exc, 'marker': f'MARKER-{exc}-zq'}}
                out.append({**base, 'behaviours': beh, 'text': t([{'jsonrpc': '2.0', 'id': 1, 'method': 'boom'}, {'jsonrpc': '2.0', 'method': 'boom2'},
                                                                   {'jsonrpc': '2.0', 'id': 2, 'method': 'boom2'}])})
                if exc in ('ValueError', 'ZzUnprintable', 'KeyError'):
                    # the same with the library's loggers at DEBUG (what is logged must not change what is answered)
                    out.append({**base, 'logging': 'debug', 'behaviours': beh, 'text': t([{'jsonrpc': '2.0', 'id': 1, 'method': 'boom'}, {'jsonrpc': '2.0', 'method': 'boom2'}])})
        return out + stdreg.exception_corpus('MARKER-c03-zq') + stdreg.rpc_error_corpus()

    def run_case(self, spec: Any) -> Outcome:
        obs = sh.observe(spec)
        registry, behaviours = sh.registry_of(spec), sh.behaviours_of(spec)
        exp = ref.expect(obs.request_text, registry, behaviours, spec.get('max_batch_size'), spec.get('codec', 'default'))
        discs: List[Disc] = []
        classes = doc_classes(spec, exp)
        if obs.raised is not None:
            discs.append(Disc(f"C03/dispatch-raised/{type(obs.raised).__name__}", f"{obs.raised!r} for {obs.request_text[:300]!r}"))
        elif obs.parse_error:
            discs.append(Disc("C03/malformed-return", obs.parse_error))
        nobind = any(e.klass.endswith('params-do-not-bind') for e in exp.elements)
        for d in sh.reference_discs('C03', obs, exp, ordered_log=spec['dispatcher'] == 'sync'):
            parts = d.bucket.split('/')
            if parts[1] == 'response':
                clause = '/'.join(parts[2:])
                if clause.startswith(CODE_CLAUSE_PREFIXES):
                    discs.append(d)
            elif parts[1] == 'executions':
                if parts[2] == 'extra-execution' and (nobind or exp.klass.startswith('doc/batch-rejected') or not exp.elements):
                    discs.append(Disc("C03/executed-although-refused", d.detail))
        # leakage
        failing = [e for e in exp.elements if e.klass.endswith('raises-exception')]
        if failing and obs.text is not None:
            for name in ('boom', 'boom2'):
                b = behaviours.get(name)
                if not b or not any(e.execution and e.execution['method'] == name for e in failing):
                    continue
                classes.append(f"exception/{b['exc']}")
                for needle, what in ((b['marker'], 'marker'), (b['exc'], 'class-name'), ('Traceback', 'traceback')):
                    if needle in obs.request_text:
                        continue
                    classes.append('leak/checked')
                    if needle in obs.text:
                        discs.append(Disc(f"C03/leak/{what}", f"{needle!r} occurs in response {obs.text[:400]!r}"))
        for e in exp.elements:
            if e.outcome == 'app-error':
                w = e.payload
                classes.append('app-error/data-absent' if 'data' not in w else 'app-error/data-null' if w['data'] is None else 'app-error/data-value')
                if w['code'] == 0:
                    classes.append('app-error/code-0')
                if w['message'] == '':
                    classes.append('app-error/empty-message')
        if isinstance(exp.parsed, list) and any(e.outcome != 'result' for e in exp.elements):
            classes.append('carrier/batch-element-failure')
        nontrivial = exp.klass in ('doc/not-json', 'doc/json-scalar', 'doc/invalid-request-object') or exp.klass.startswith('doc/batch-rejected') \
            or any(e.outcome != 'result' for e in exp.elements)
        return Outcome(discs, nontrivial, sorted(set(classes)))


CHECK = C03()

MANIFEST = dict(
    technique="property-based testing (Hypothesis) against a reference JSON-RPC server with scripted method failures and a response-text leak scan",
    level_text=(
        "Generated request documents are dispatched against methods scripted to raise protocol errors (codes incl. 0 / standard / reserved / "
        "huge, messages incl. '', data absent vs null vs any JSON) or one of 12 exception types with a unique marker; the reply is compared "
        "with an independent reference server (codes, id-null rule, verbatim application errors) and scanned for marker / class name / "
        "traceback. Sampling with mandatory non-zero class counters."
    ),
    level_note="trusts pbt/refserver.py and python's json; wording/data of library-generated errors is implementation-defined and not compared",
)
